import KoalaVerif.Model.Path
import KoalaVerif.Props.C06
import Mathlib.Data.List.Basic
import Mathlib.Tactic.Ring
import Mathlib.Tactic.Linarith
import Mathlib.Tactic.Positivity

/-! # C11 — path finding returns valid chains; flipping a plaquette path changes exactly its two ends; metrics

The backward pass is proved correct for every parent table that satisfies `ParentOK` (parents are adjacent through
the recorded edge and strictly decrease a rank), and the forward pass is proved to establish `ParentOK` whenever it
returns (`forward_done`; loop invariant `FInv`, rank = number of recorded costs below the node's own), for every
cost type obeying `CostLaws` — so `path_valid` is unconditional.  The executable model of the whole search is run
against koala with IEEE doubles and must return the same path. -/

namespace C11
open Path

/-! ### valid chains -/

/-- `nodes = [n0, n1, …, nk]`, `edges = [e1, …, ek]`: consecutive nodes are joined by the listed edge, one edge per step -/
inductive ValidChain (adj : Nat → List (Nat × Nat)) : List Nat → List Nat → Prop
  | single (n : Nat) : ValidChain adj [n] []
  | cons {n p : Nat} {e : Nat} {rest : List Nat} {es : List Nat} :
      (n, e) ∈ adj p → ValidChain adj (p :: rest) es → ValidChain adj (n :: p :: rest) (e :: es)

theorem ValidChain.length {adj : Nat → List (Nat × Nat)} {ns es : List Nat} (h : ValidChain adj ns es) :
    es.length + 1 = ns.length := by
  induction h with
  | single => rfl
  | cons _ _ ih => simp [← ih]

/-- the executable validity test of the driver (defined next to the model) -/
abbrev validChainB := C11Exec.validChainB

theorem validChainB_sound (adj : Nat → List (Nat × Nat)) (ns es : List Nat) (h : validChainB adj ns es = true) :
    ValidChain adj ns es := by
  induction ns generalizing es with
  | nil => simp [validChainB, C11Exec.validChainB] at h
  | cons n t ih =>
    cases t with
    | nil =>
      cases es with
      | nil => exact ValidChain.single n
      | cons _ _ => simp [validChainB, C11Exec.validChainB] at h
    | cons p rest =>
      cases es with
      | nil => simp [validChainB, C11Exec.validChainB] at h
      | cons e es =>
        simp only [validChainB, C11Exec.validChainB, Bool.and_eq_true, List.contains_eq_mem, decide_eq_true_eq] at h
        exact ValidChain.cons h.1 (ih es h.2)

/-! ### the backward pass -/

/-- accumulator-free form of the backward pass -/
def chain (came : List (Nat × (Nat × Nat))) (start : Nat) : Nat → Nat → Option (List Nat × List Nat)
  | 0, _ => none
  | fuel + 1, cur =>
    if cur == start then some ([cur], [])
    else match lookup cur came with
      | none => none
      | some (p, e) => (chain came start fuel p).map fun r => (cur :: r.1, e :: r.2)

theorem backward_eq_chain (came : List (Nat × (Nat × Nat))) (start : Nat) (fuel cur : Nat) (nacc eacc : List Nat) :
    backward came start fuel cur nacc eacc =
      (chain came start fuel cur).map fun r => (nacc.reverse ++ r.1, eacc.reverse ++ r.2) := by
  induction fuel generalizing cur nacc eacc with
  | zero => rfl
  | succ fuel ih =>
    unfold backward chain
    split
    · simp
    · cases hl : lookup cur came with
      | none => simp
      | some pe =>
        obtain ⟨p, e⟩ := pe
        simp only [ih]
        cases chain came start fuel p with
        | none => simp
        | some r => simp

/-- the invariant the forward pass maintains about its parent table -/
structure ParentOK (adj : Nat → List (Nat × Nat)) (came : List (Nat × (Nat × Nat))) (start : Nat) (rank : Nat → Nat) : Prop where
  adjacent : ∀ n p e, lookup n came = some (p, e) → (n, e) ∈ adj p
  decreasing : ∀ n p e, lookup n came = some (p, e) → n ≠ start → rank p < rank n
  parent_known : ∀ n p e, lookup n came = some (p, e) → p = start ∨ ∃ q, lookup p came = some q

/-- **C11 backward pass**: from every node that is the start or has a parent, with enough fuel, the walk along the
    parents terminates (the rank strictly decreases: this is the termination proof of the real `while` loop) and
    returns a valid chain from that node to the start, one edge per step -/
theorem chain_valid (adj : Nat → List (Nat × Nat)) (came : List (Nat × (Nat × Nat))) (start : Nat) (rank : Nat → Nat)
    (hok : ParentOK adj came start rank) :
    ∀ fuel cur, rank cur < fuel → (cur = start ∨ ∃ q, lookup cur came = some q) →
      ∃ ns es, chain came start fuel cur = some (ns, es) ∧ ns.head? = some cur ∧ ns.getLast? = some start ∧
        ValidChain adj ns es := by
  intro fuel
  induction fuel with
  | zero => intro cur h; omega
  | succ fuel ih =>
    intro cur hr hk
    unfold chain
    by_cases hcs : cur = start
    · subst hcs
      simp only [beq_self_eq_true, if_true]
      exact ⟨[cur], [], rfl, rfl, rfl, ValidChain.single cur⟩
    · have hne : (cur == start) = false := by simpa using hcs
      rw [hne]
      simp only [Bool.false_eq_true, if_false]
      rcases hk with hk | ⟨q, hq⟩
      · exact absurd hk hcs
      · obtain ⟨p, e⟩ := q
        rw [hq]
        have hdec := hok.decreasing cur p e hq hcs
        obtain ⟨ns, es, h1, h2, h3, h4⟩ := ih p (by omega) (hok.parent_known cur p e hq)
        simp only [h1, Option.map_some]
        cases ns with
        | nil => simp at h2
        | cons n0 rest =>
          simp only [List.head?_cons, Option.some.injEq] at h2
          subst h2
          refine ⟨cur :: n0 :: rest, e :: es, rfl, rfl, ?_, ValidChain.cons (hok.adjacent cur n0 e hq) h4⟩
          simpa [List.getLast?_cons_cons] using h3

/-- the same for the accumulator version koala's loop corresponds to: `nodes[0] = goal`, `nodes[-1] = start`,
    `len(edges) = len(nodes) − 1`, consecutive nodes joined by the listed edge; `start = goal` gives `([goal], [])` -/
theorem backward_valid (adj : Nat → List (Nat × Nat)) (came : List (Nat × (Nat × Nat))) (start goal : Nat) (rank : Nat → Nat)
    (hok : ParentOK adj came start rank) (fuel : Nat) (hf : rank goal < fuel)
    (hk : goal = start ∨ ∃ q, lookup goal came = some q) :
    ∃ ns es, backward came start fuel goal [] [] = some (ns, es) ∧ ns.head? = some goal ∧ ns.getLast? = some start ∧
      es.length + 1 = ns.length ∧ ValidChain adj ns es := by
  obtain ⟨ns, es, h1, h2, h3, h4⟩ := chain_valid adj came start rank hok fuel goal hf hk
  refine ⟨ns, es, ?_, h2, h3, h4.length, h4⟩
  rw [backward_eq_chain, h1]; simp

theorem backward_start_eq_goal (came : List (Nat × (Nat × Nat))) (start : Nat) (fuel : Nat) :
    backward came start (fuel + 1) start [] [] = some ([start], []) := by
  simp [backward]

/-! ### flipping the bonds of a plaquette path changes exactly its two end plaquettes -/

/-- a valid chain for an adjacency provider that reports, for plaquette `p`, the plaquettes `q` across its two-sided
    edges `e` (`graph_utils.adjacent_plaquettes`, C02) is a chain of plaquettes in the sense of C06 -/
theorem validChain_is_plaquette_chain (S : Tree.Sys) (adj : Nat → List (Nat × Nat))
    (hadj : ∀ p q e, (q, e) ∈ adj p → S.sides e = (some p, some q) ∨ S.sides e = (some q, some p))
    {ns es : List Nat} (h : ValidChain adj ns es) :
    ∀ a b, ns.head? = some a → ns.getLast? = some b → C06.Chain S a es b := by
  induction h with
  | single n =>
    intro a b ha hb
    simp only [List.head?_cons, Option.some.injEq, List.getLast?_singleton] at ha hb
    subst ha; subst hb; exact C06.Chain.nil _
  | @cons n p e rest es hmem _ ih =>
    intro a b ha hb
    simp only [List.head?_cons, Option.some.injEq] at ha
    subst ha
    have hb' : (p :: rest).getLast? = some b := by simpa [List.getLast?_cons_cons] using hb
    have := ih p b rfl hb'
    refine C06.Chain.cons ?_ this
    rcases hadj p n e hmem with h | h
    · right; exact h
    · left; exact h

/-- **two-ends law for paths**: flipping every bond on a plaquette path (pairwise different edges) multiplies the flux
    of plaquette `q` by −1 exactly when `q` is one of the two ends and the ends differ — both flux conventions -/
theorem path_flips_two_ends (S : Tree.Sys) (hS : C14.OK S) (Φ : (Nat → Int) → Nat → Int) (hΦ : C06.FlipLaw S Φ)
    (adj : Nat → List (Nat × Nat))
    (hadj : ∀ p q e, (q, e) ∈ adj p → S.sides e = (some p, some q) ∨ S.sides e = (some q, some p))
    {ns es : List Nat} (h : ValidChain adj ns es) (hnd : es.Nodup) (a b : Nat) (ha : ns.head? = some a)
    (hb : ns.getLast? = some b) (u : Nat → Int) (q : Nat) (hq : q < S.F) :
    Φ (Solver.flipEdges es u) q = C06.ind q a * C06.ind q b * Φ u q := by
  rw [C06.flux_flipEdges S Φ hΦ es hnd, C06.chain_toggle S hS q hq (validChain_is_plaquette_chain S adj hadj h a b ha hb)]

/-! ### the metrics (exact, on scaled integer coordinates; `S` = one cell) -/

theorem absI_nonneg (x : Int) : 0 ≤ absI x := by unfold absI; split <;> omega
theorem absI_neg (x : Int) : absI (-x) = absI x := by unfold absI; split <;> split <;> omega
theorem absI_sq (x : Int) : absI x ^ 2 = x ^ 2 := by unfold absI; split <;> ring

theorem wrap1_symm (S a b : Int) : wrap1 S a b = wrap1 S b a := by
  unfold wrap1
  have : absI (a - b) = absI (b - a) := by rw [← absI_neg]; congr 1; ring
  simp only [this]

/-- for coordinates in `[0, S)` the wrapped difference is in `[0, S/2]`, never longer than the plain one, and zero only
    for equal coordinates -/
theorem wrap1_bounds (S a b : Int) (ha : 0 ≤ a ∧ a < S) (hb : 0 ≤ b ∧ b < S) :
    0 ≤ wrap1 S a b ∧ 2 * wrap1 S a b ≤ S ∧ wrap1 S a b ≤ absI (a - b) ∧ (wrap1 S a b = 0 ↔ a = b) := by
  unfold wrap1 absI
  simp only
  split <;> split <;> (refine ⟨by omega, by omega, by omega, by omega⟩)

/-- the wrapped difference is the smallest of the three image differences `|a − b + kS|`, `k ∈ {−1, 0, 1}` -/
theorem wrap1_min_image (S a b : Int) (ha : 0 ≤ a ∧ a < S) (hb : 0 ≤ b ∧ b < S) :
    (wrap1 S a b = absI (a - b) ∨ wrap1 S a b = absI (a - b + S) ∨ wrap1 S a b = absI (a - b - S)) ∧
    wrap1 S a b ≤ absI (a - b) ∧ wrap1 S a b ≤ absI (a - b + S) ∧ wrap1 S a b ≤ absI (a - b - S) := by
  unfold wrap1 absI
  simp only
  split <;> split <;> split <;> split <;> (refine ⟨by omega, by omega, by omega, by omega⟩)

theorem sq_le_sq_of_abs {x y : Int} (hx : 0 ≤ x) (hxy : x ≤ y) : x ^ 2 ≤ y ^ 2 := by nlinarith

/-- **minimum-image distance**: symmetric, non-negative, zero only for coincident points, never longer than the
    Euclidean one (all on squares) -/
theorem periodic2_symm (S : Int) (a b : Int × Int) : periodic2 S a b = periodic2 S b a := by
  unfold periodic2; rw [wrap1_symm S a.1 b.1, wrap1_symm S a.2 b.2]

theorem periodic2_nonneg (S : Int) (a b : Int × Int) : 0 ≤ periodic2 S a b := by unfold periodic2; positivity

theorem periodic2_le_euclid2 (S : Int) (a b : Int × Int) (ha1 : 0 ≤ a.1 ∧ a.1 < S) (ha2 : 0 ≤ a.2 ∧ a.2 < S)
    (hb1 : 0 ≤ b.1 ∧ b.1 < S) (hb2 : 0 ≤ b.2 ∧ b.2 < S) : periodic2 S a b ≤ euclid2 a b := by
  unfold periodic2 euclid2
  obtain ⟨p1, _, q1, _⟩ := wrap1_bounds S a.1 b.1 ha1 hb1
  obtain ⟨p2, _, q2, _⟩ := wrap1_bounds S a.2 b.2 ha2 hb2
  have e1 := sq_le_sq_of_abs p1 q1
  have e2 := sq_le_sq_of_abs p2 q2
  rw [absI_sq] at e1 e2
  linarith

theorem periodic2_eq_zero_iff (S : Int) (a b : Int × Int) (ha1 : 0 ≤ a.1 ∧ a.1 < S) (ha2 : 0 ≤ a.2 ∧ a.2 < S)
    (hb1 : 0 ≤ b.1 ∧ b.1 < S) (hb2 : 0 ≤ b.2 ∧ b.2 < S) : periodic2 S a b = 0 ↔ a = b := by
  unfold periodic2
  obtain ⟨p1, _, _, z1⟩ := wrap1_bounds S a.1 b.1 ha1 hb1
  obtain ⟨p2, _, _, z2⟩ := wrap1_bounds S a.2 b.2 ha2 hb2
  constructor
  · intro h
    have h1 : wrap1 S a.1 b.1 = 0 := by nlinarith [sq_nonneg (wrap1 S a.1 b.1), sq_nonneg (wrap1 S a.2 b.2)]
    have h2 : wrap1 S a.2 b.2 = 0 := by nlinarith [sq_nonneg (wrap1 S a.1 b.1), sq_nonneg (wrap1 S a.2 b.2)]
    exact Prod.ext (z1.mp h1) (z2.mp h2)
  · intro h
    rw [z1.mpr (by rw [h]), z2.mpr (by rw [h])]; ring

theorem absI_sq_le {x y : Int} (h : absI x ≤ absI y) : x ^ 2 ≤ y ^ 2 := by
  have hx := absI_nonneg x
  have := sq_le_sq_of_abs hx h
  rwa [absI_sq, absI_sq] at this

/-- **the torus metric is the minimum-image distance**: the squared periodic distance is the smallest of the nine squared
    Euclidean distances to the images `b + (i·S, j·S)`, `i, j ∈ {−1, 0, 1}`, and it is attained by one of them -/
theorem periodic2_min_image (S : Int) (a b : Int × Int) (ha1 : 0 ≤ a.1 ∧ a.1 < S) (ha2 : 0 ≤ a.2 ∧ a.2 < S)
    (hb1 : 0 ≤ b.1 ∧ b.1 < S) (hb2 : 0 ≤ b.2 ∧ b.2 < S) :
    (∀ i j : Int, (i = -1 ∨ i = 0 ∨ i = 1) → (j = -1 ∨ j = 0 ∨ j = 1) →
        periodic2 S a b ≤ euclid2 a (b.1 + i * S, b.2 + j * S)) ∧
    (∃ i j : Int, (i = -1 ∨ i = 0 ∨ i = 1) ∧ (j = -1 ∨ j = 0 ∨ j = 1) ∧
        periodic2 S a b = euclid2 a (b.1 + i * S, b.2 + j * S)) := by
  obtain ⟨hx, hx0, hxp, hxm⟩ := wrap1_min_image S a.1 b.1 ha1 hb1
  obtain ⟨hy, hy0, hyp, hym⟩ := wrap1_min_image S a.2 b.2 ha2 hb2
  have wx := (wrap1_bounds S a.1 b.1 ha1 hb1).1
  have wy := (wrap1_bounds S a.2 b.2 ha2 hb2).1
  constructor
  · intro i j hi hj
    unfold periodic2 euclid2
    have ex : wrap1 S a.1 b.1 ^ 2 ≤ (a.1 - (b.1 + i * S)) ^ 2 := by
      rcases hi with rfl | rfl | rfl
      · have := sq_le_sq_of_abs wx hxp; rw [absI_sq] at this
        calc wrap1 S a.1 b.1 ^ 2 ≤ (a.1 - b.1 + S) ^ 2 := this
          _ = (a.1 - (b.1 + -1 * S)) ^ 2 := by ring
      · have := sq_le_sq_of_abs wx hx0; rw [absI_sq] at this
        calc wrap1 S a.1 b.1 ^ 2 ≤ (a.1 - b.1) ^ 2 := this
          _ = (a.1 - (b.1 + 0 * S)) ^ 2 := by ring
      · have := sq_le_sq_of_abs wx hxm; rw [absI_sq] at this
        calc wrap1 S a.1 b.1 ^ 2 ≤ (a.1 - b.1 - S) ^ 2 := this
          _ = (a.1 - (b.1 + 1 * S)) ^ 2 := by ring
    have ey : wrap1 S a.2 b.2 ^ 2 ≤ (a.2 - (b.2 + j * S)) ^ 2 := by
      rcases hj with rfl | rfl | rfl
      · have := sq_le_sq_of_abs wy hyp; rw [absI_sq] at this
        calc wrap1 S a.2 b.2 ^ 2 ≤ (a.2 - b.2 + S) ^ 2 := this
          _ = (a.2 - (b.2 + -1 * S)) ^ 2 := by ring
      · have := sq_le_sq_of_abs wy hy0; rw [absI_sq] at this
        calc wrap1 S a.2 b.2 ^ 2 ≤ (a.2 - b.2) ^ 2 := this
          _ = (a.2 - (b.2 + 0 * S)) ^ 2 := by ring
      · have := sq_le_sq_of_abs wy hym; rw [absI_sq] at this
        calc wrap1 S a.2 b.2 ^ 2 ≤ (a.2 - b.2 - S) ^ 2 := this
          _ = (a.2 - (b.2 + 1 * S)) ^ 2 := by ring
    simp only
    linarith
  · have px : ∃ i : Int, (i = -1 ∨ i = 0 ∨ i = 1) ∧ wrap1 S a.1 b.1 ^ 2 = (a.1 - (b.1 + i * S)) ^ 2 := by
      rcases hx with h | h | h
      · exact ⟨0, by simp, by rw [h, absI_sq]; ring⟩
      · exact ⟨-1, by simp, by rw [h, absI_sq]; ring⟩
      · exact ⟨1, by simp, by rw [h, absI_sq]; ring⟩
    have py : ∃ j : Int, (j = -1 ∨ j = 0 ∨ j = 1) ∧ wrap1 S a.2 b.2 ^ 2 = (a.2 - (b.2 + j * S)) ^ 2 := by
      rcases hy with h | h | h
      · exact ⟨0, by simp, by rw [h, absI_sq]; ring⟩
      · exact ⟨-1, by simp, by rw [h, absI_sq]; ring⟩
      · exact ⟨1, by simp, by rw [h, absI_sq]; ring⟩
    obtain ⟨i, hi, ei⟩ := px
    obtain ⟨j, hj, ej⟩ := py
    refine ⟨i, j, hi, hj, ?_⟩
    unfold periodic2 euclid2
    simp only
    rw [ei, ej]

theorem euclid2_metric (a b : Int × Int) : euclid2 a b = euclid2 b a ∧ 0 ≤ euclid2 a b ∧ (euclid2 a b = 0 ↔ a = b) := by
  unfold euclid2
  refine ⟨by ring, by positivity, ?_⟩
  constructor
  · intro h
    have h1 : a.1 - b.1 = 0 := by nlinarith [sq_nonneg (a.1 - b.1), sq_nonneg (a.2 - b.2)]
    have h2 : a.2 - b.2 = 0 := by nlinarith [sq_nonneg (a.1 - b.1), sq_nonneg (a.2 - b.2)]
    exact Prod.ext (by omega) (by omega)
  · intro h; rw [h]; ring

/-! ### the forward pass maintains the parent invariant -/

section Assoc
variable {α : Type}

theorem lookup_set_self (k : Nat) (v : α) (l : List (Nat × α)) : lookup k (Path.set k v l) = some v := by
  induction l with
  | nil => simp [Path.set, lookup]
  | cons a t ih =>
    obtain ⟨k', v'⟩ := a
    by_cases h : k' = k
    · simp [Path.set, lookup, h]
    · simp [Path.set, lookup, h, ih]

theorem lookup_set_ne (k k' : Nat) (v : α) (l : List (Nat × α)) (hne : k' ≠ k) : lookup k' (Path.set k v l) = lookup k' l := by
  induction l with
  | nil => simp [Path.set, lookup, Ne.symm hne]
  | cons a t ih =>
    obtain ⟨k'', v''⟩ := a
    by_cases h : k'' = k
    · subst h; simp [Path.set, lookup, Ne.symm hne]
    · by_cases h2 : k'' = k'
      · subst h2; simp [Path.set, lookup, h]
      · simp [Path.set, lookup, h, h2, ih]

theorem lookup_set_some (k k' : Nat) (v : α) (l : List (Nat × α)) (h : ∃ c, lookup k' l = some c) :
    ∃ c, lookup k' (Path.set k v l) = some c := by
  by_cases hk : k' = k
  · subst hk; exact ⟨v, lookup_set_self _ _ _⟩
  · rw [lookup_set_ne k k' v l hk]; exact h

theorem length_set_some (k : Nat) (v w : α) (l : List (Nat × α)) (h : lookup k l = some w) : (Path.set k v l).length = l.length := by
  induction l with
  | nil => simp [lookup] at h
  | cons a t ih =>
    obtain ⟨k', v'⟩ := a
    by_cases hk : k' = k
    · simp [Path.set, hk]
    · simp only [lookup, hk, if_false] at h
      simp [Path.set, hk, ih h]

theorem length_set_none (k : Nat) (v : α) (l : List (Nat × α)) (h : lookup k l = none) : (Path.set k v l).length = l.length + 1 := by
  induction l with
  | nil => simp [Path.set]
  | cons a t ih =>
    obtain ⟨k', v'⟩ := a
    by_cases hk : k' = k
    · simp [lookup, hk] at h
    · simp only [lookup, hk, if_false] at h
      simp [Path.set, hk, ih h]

theorem length_set_ge (k : Nat) (v : α) (l : List (Nat × α)) : l.length ≤ (Path.set k v l).length := by
  cases h : lookup k l with
  | none => rw [length_set_none k v l h]; omega
  | some w => rw [length_set_some k v w l h]

theorem lookup_mem (k : Nat) (v : α) (l : List (Nat × α)) (h : lookup k l = some v) : (k, v) ∈ l := by
  induction l with
  | nil => simp [lookup] at h
  | cons a t ih =>
    obtain ⟨k', v'⟩ := a
    by_cases hk : k' = k
    · simp only [lookup, hk, if_true, Option.some.injEq] at h
      simp [hk, h]
    · simp only [lookup, hk, if_false] at h
      exact List.mem_cons_of_mem _ (ih h)

theorem countP_lt {β : Type} (l : List β) (P Q : β → Bool) (hPQ : ∀ x ∈ l, P x = true → Q x = true)
    (x : β) (hx : x ∈ l) (hQ : Q x = true) (hP : P x = false) : l.countP P < l.countP Q := by
  induction l with
  | nil => simp at hx
  | cons a t ih =>
    simp only [List.countP_cons]
    have hmono : t.countP P ≤ t.countP Q := List.countP_mono_left (fun y hy h => hPQ y (List.mem_cons_of_mem _ hy) h)
    rcases List.mem_cons.mp hx with h | h
    · subst h; simp [hQ, hP]; omega
    · have := ih (fun y hy => hPQ y (List.mem_cons_of_mem _ hy)) h
      have ha := hPQ a (by simp)
      by_cases hpa : P a = true
      · simp [hpa, ha hpa]; omega
      · simp [hpa]; omega

end Assoc

set_option linter.unusedSectionVars false
variable {C : Type} [Add C] [LT C] [DecidableRel (fun a b : C => a < b)]

/-- what the proof needs of the cost arithmetic (for IEEE doubles: `<` is a strict order away from NaN, and adding a
    positive distance that is not absorbed by rounding increases a cost) -/
structure CostLaws (h : Nat → Nat → C) : Prop where
  asymm : ∀ a b : C, a < b → ¬ b < a
  trans : ∀ a b c : C, a < b → b < c → a < c
  pos : ∀ (c : C) (a b : Nat), c < c + h a b

/-- the rank that decreases along parents: the number of recorded costs below the node's own (nodes without a cost —
    only the goal reached by early stopping — rank above everything) -/
def rankOf (cost : List (Nat × C)) (n : Nat) : Nat :=
  match lookup n cost with
  | none => cost.length
  | some c => cost.countP fun kv => decide (kv.2 < c)

theorem rankOf_lt_of_lt (hl : ∀ a b c : C, a < b → b < c → a < c) (hasym : ∀ a b : C, a < b → ¬ b < a)
    (cost : List (Nat × C)) (p n : Nat) (cp cn : C)
    (hp : lookup p cost = some cp) (hn : lookup n cost = some cn) (hlt : cp < cn) : rankOf cost p < rankOf cost n := by
  unfold rankOf
  rw [hp, hn]
  apply countP_lt _ _ _ _ (p, cp) (lookup_mem p cp cost hp)
  · simpa using hlt
  · simp only [decide_eq_false_iff_not]; intro h; exact hasym _ _ h h
  · intro x _ hx
    simp only [decide_eq_true_eq] at hx ⊢
    exact hl _ _ _ hx hlt

theorem rankOf_lt_length (hasym : ∀ a b : C, a < b → ¬ b < a) (cost : List (Nat × C)) (p : Nat) (cp : C)
    (hp : lookup p cost = some cp) : rankOf cost p < cost.length := by
  unfold rankOf
  rw [hp]
  have := countP_lt cost (fun kv => decide (kv.2 < cp)) (fun _ => true) (fun _ _ _ => rfl) (p, cp) (lookup_mem p cp cost hp) rfl
    (by simp only [decide_eq_false_iff_not]; intro h; exact hasym _ _ h h)
  simpa using this

theorem rankOf_le_length (hasym : ∀ a b : C, a < b → ¬ b < a) (cost : List (Nat × C)) (n : Nat) : rankOf cost n ≤ cost.length := by
  cases h : lookup n cost with
  | none => unfold rankOf; rw [h]
  | some c => exact Nat.le_of_lt (rankOf_lt_length hasym cost n c h)

/-- the loop invariant of `a_star_search_forward_pass` -/
structure FInv (adj : Nat → List (Nat × Nat)) (start goal : Nat) (early : Bool) (s : St C) : Prop where
  adjacent : ∀ n p e, lookup n s.came = some (p, e) → (n, e) ∈ adj p
  ordered : ∀ n p e, lookup n s.came = some (p, e) → ∃ cp cn, lookup p s.cost = some cp ∧ lookup n s.cost = some cn ∧ cp < cn
  frontier_ok : ∀ x ∈ s.frontier, (∃ c, lookup x.2 s.cost = some c) ∧ (x.2 = start ∨ ∃ q, lookup x.2 s.came = some q)
  parent_known : ∀ n p e, lookup n s.came = some (p, e) → p = start ∨ ∃ q, lookup p s.came = some q
  goal_fresh : early = true → goal ≠ start → lookup goal s.cost = none
  sizes : s.cost.length ≤ s.came.length + 1

theorem finv_init (adj : Nat → List (Nat × Nat)) (start goal : Nat) (early : Bool) (zero : C) :
    FInv adj start goal early (initSt zero start) where
  adjacent := by intro n p e h; simp [initSt, lookup] at h
  ordered := by intro n p e h; simp [initSt, lookup] at h
  frontier_ok := by
    intro x hx
    simp only [initSt, List.mem_singleton] at hx
    subst hx
    exact ⟨⟨zero, by simp [initSt, lookup]⟩, Or.inl rfl⟩
  parent_known := by intro n p e h; simp [initSt, lookup] at h
  goal_fresh := by
    intro _ hne
    simp [initSt, lookup, Ne.symm hne]
  sizes := by simp [initSt]

/-- one successful relaxation keeps the invariant -/
theorem finv_update (adj : Nat → List (Nat × Nat)) (h : Nat → Nat → C) (hL : CostLaws h) (start goal : Nat) (early : Bool)
    (s : St C) (hI : FInv adj start goal early s) (current next e : Nat) (cc : C)
    (hcc : lookup current s.cost = some cc) (hcur : current = start ∨ ∃ q, lookup current s.came = some q)
    (hadj : (next, e) ∈ adj current) (hng : ¬ (early = true ∧ next = goal))
    (hbetter : lookup next s.cost = none ∨ ∃ old, lookup next s.cost = some old ∧ cc + h current next < old) :
    FInv adj start goal early
      { came := Path.set next (current, e) s.came, cost := Path.set next (cc + h current next) s.cost,
        frontier := (cc + h current next + h next goal, next) :: s.frontier } := by
  have hne_cur : next ≠ current := by
    rintro rfl
    rcases hbetter with hb | ⟨old, hb, hlt⟩
    · rw [hcc] at hb; cases hb
    · rw [hcc] at hb; cases hb
      exact hL.asymm _ _ (hL.pos cc next next) hlt
  constructor
  · intro n p e' hl
    by_cases hn : n = next
    · subst hn; rw [lookup_set_self] at hl; cases hl; exact hadj
    · rw [lookup_set_ne _ _ _ _ hn] at hl; exact hI.adjacent n p e' hl
  · intro n p e' hl
    show ∃ cp cn, lookup p (Path.set next _ s.cost) = some cp ∧ lookup n (Path.set next _ s.cost) = some cn ∧ cp < cn
    by_cases hn : n = next
    · subst hn; rw [lookup_set_self] at hl; cases hl
      refine ⟨cc, cc + h current n, ?_, lookup_set_self _ _ _, hL.pos _ _ _⟩
      rw [lookup_set_ne _ _ _ _ (Ne.symm hne_cur)]; exact hcc
    · rw [lookup_set_ne _ _ _ _ hn] at hl
      obtain ⟨cp, cn, h1, h2, h3⟩ := hI.ordered n p e' hl
      by_cases hp : p = next
      · subst hp
        refine ⟨cc + h current p, cn, lookup_set_self _ _ _, by rw [lookup_set_ne _ _ _ _ hn]; exact h2, ?_⟩
        rcases hbetter with hb | ⟨old, hb, hlt⟩
        · rw [h1] at hb; cases hb
        · rw [h1] at hb; cases hb; exact hL.trans _ _ _ hlt h3
      · exact ⟨cp, cn, by rw [lookup_set_ne _ _ _ _ hp]; exact h1, by rw [lookup_set_ne _ _ _ _ hn]; exact h2, h3⟩
  · intro x hx
    rcases List.mem_cons.mp hx with hx | hx
    · subst hx
      exact ⟨⟨_, lookup_set_self _ _ _⟩, Or.inr ⟨_, lookup_set_self _ _ _⟩⟩
    · obtain ⟨h1, h2⟩ := hI.frontier_ok x hx
      refine ⟨lookup_set_some _ _ _ _ h1, ?_⟩
      rcases h2 with h2 | h2
      · exact Or.inl h2
      · exact Or.inr (lookup_set_some _ _ _ _ h2)
  · intro n p e' hl
    show p = start ∨ ∃ q, lookup p (Path.set next _ s.came) = some q
    by_cases hn : n = next
    · subst hn; rw [lookup_set_self] at hl; cases hl
      rcases hcur with h1 | h1
      · exact Or.inl h1
      · exact Or.inr (lookup_set_some _ _ _ _ h1)
    · rw [lookup_set_ne _ _ _ _ hn] at hl
      rcases hI.parent_known n p e' hl with h1 | h1
      · exact Or.inl h1
      · exact Or.inr (lookup_set_some _ _ _ _ h1)
  · intro he hgs
    show lookup goal (Path.set next _ s.cost) = none
    have : goal ≠ next := fun hh => hng ⟨he, hh.symm⟩
    rw [lookup_set_ne _ _ _ _ this]; exact hI.goal_fresh he hgs
  · show (Path.set next _ s.cost).length ≤ (Path.set next _ s.came).length + 1
    cases hc : lookup next s.cost with
    | some w =>
      rw [length_set_some _ _ w _ hc]
      have := length_set_ge next (current, e) s.came
      have := hI.sizes
      omega
    | none =>
      have hcame : lookup next s.came = none := by
        cases hq : lookup next s.came with
        | none => rfl
        | some q =>
          obtain ⟨p, e'⟩ := q
          obtain ⟨_, cn, _, h2, _⟩ := hI.ordered next p e' hq
          rw [hc] at h2; cases h2
      rw [length_set_none _ _ _ hc, length_set_none _ _ _ hcame]
      have := hI.sizes
      omega


/-- the state in which the early-stopping branch returns: the parent of the goal was written on top of a state
    satisfying the invariant -/
def Stopped (adj : Nat → List (Nat × Nat)) (start goal : Nat) (early : Bool) (s' : St C) : Prop :=
  ∃ (s : St C) (cur e : Nat), FInv adj start goal early s ∧ (goal, e) ∈ adj cur ∧ (∃ cc, lookup cur s.cost = some cc) ∧
    (cur = start ∨ ∃ q, lookup cur s.came = some q) ∧ early = true ∧ s'.came = Path.set goal (cur, e) s.came ∧ s'.cost = s.cost

/-- the inner `for next, shared_edge in zip(*adjacency(current))` loop -/
theorem relax_inv (adj : Nat → List (Nat × Nat)) (h : Nat → Nat → C) (hL : CostLaws h) (start goal : Nat) (early : Bool)
    (current : Nat) :
    ∀ (l : List (Nat × Nat)) (s : St C), (∀ x ∈ l, x ∈ adj current) → FInv adj start goal early s →
      (∃ cc, lookup current s.cost = some cc) → (current = start ∨ ∃ q, lookup current s.came = some q) →
      ((relax h goal early current l s).2 = false → FInv adj start goal early (relax h goal early current l s).1) ∧
      ((relax h goal early current l s).2 = true → Stopped adj start goal early (relax h goal early current l s).1) := by
  intro l
  induction l with
  | nil => intro s _ hI _ _; exact ⟨fun _ => hI, fun hh => by simp [relax] at hh⟩
  | cons x rest ih =>
    intro s hsub hI hcc hcur
    obtain ⟨next, e⟩ := x
    have hadj : (next, e) ∈ adj current := hsub _ (by simp)
    have hsub' : ∀ x ∈ rest, x ∈ adj current := fun x hx => hsub x (List.mem_cons_of_mem _ hx)
    by_cases hstop : (early && next == goal) = true
    · -- early return
      have hr : relax h goal early current ((next, e) :: rest) s = ({ s with came := Path.set next (current, e) s.came }, true) := by
        simp only [relax, hstop, if_true]
      rw [hr]
      simp only [Bool.and_eq_true, beq_iff_eq] at hstop
      obtain ⟨he, hng⟩ := hstop
      subst hng
      exact ⟨fun hh => absurd hh (by simp), fun _ => ⟨s, current, e, hI, hadj, hcc, hcur, he, rfl, rfl⟩⟩
    · obtain ⟨cc, hcc'⟩ := hcc
      have hng : ¬ (early = true ∧ next = goal) := by
        intro hh; apply hstop; simp [hh.1, hh.2]
      cases hn : lookup next s.cost with
      | none =>
        have hr : relax h goal early current ((next, e) :: rest) s = relax h goal early current rest
            { came := Path.set next (current, e) s.came, cost := Path.set next (cc + h current next) s.cost,
              frontier := (cc + h current next + h next goal, next) :: s.frontier } := by
          simp only [relax, hstop, hcc', hn, Bool.false_eq_true, if_false, if_true]
        rw [hr]
        have hI' := finv_update adj h hL start goal early s hI current next e cc hcc' hcur hadj hng (Or.inl hn)
        refine ih _ hsub' hI' (lookup_set_some _ _ _ _ ⟨cc, hcc'⟩) ?_
        rcases hcur with h1 | h1
        · exact Or.inl h1
        · exact Or.inr (lookup_set_some _ _ _ _ h1)
      | some old =>
        by_cases hb : cc + h current next < old
        · have hr : relax h goal early current ((next, e) :: rest) s = relax h goal early current rest
              { came := Path.set next (current, e) s.came, cost := Path.set next (cc + h current next) s.cost,
                frontier := (cc + h current next + h next goal, next) :: s.frontier } := by
            simp only [relax, hstop, hcc', hn, hb, decide_true, Bool.false_eq_true, if_false, if_true]
          rw [hr]
          have hI' := finv_update adj h hL start goal early s hI current next e cc hcc' hcur hadj hng (Or.inr ⟨old, hn, hb⟩)
          refine ih _ hsub' hI' (lookup_set_some _ _ _ _ ⟨cc, hcc'⟩) ?_
          rcases hcur with h1 | h1
          · exact Or.inl h1
          · exact Or.inr (lookup_set_some _ _ _ _ h1)
        · have hr : relax h goal early current ((next, e) :: rest) s = relax h goal early current rest s := by
            simp only [relax, hstop, hcc', hn, hb, decide_false, Bool.false_eq_true, if_false]
          rw [hr]
          exact ih s hsub' hI ⟨cc, hcc'⟩ hcur

theorem popMin_mem : ∀ (l : List (C × Nat)) (m : C × Nat) (rest : List (C × Nat)), popMin l = some (m, rest) →
    m ∈ l ∧ ∀ x ∈ rest, x ∈ l := by
  intro l
  induction l with
  | nil => intro m rest hh; simp [popMin] at hh
  | cons x xs ih =>
    intro m rest hh
    simp only [popMin] at hh
    cases hp : popMin xs with
    | none =>
      rw [hp] at hh
      simp only [Option.some.injEq, Prod.mk.injEq] at hh
      obtain ⟨rfl, rfl⟩ := hh
      exact ⟨by simp, by simp⟩
    | some mr =>
      obtain ⟨m', rest'⟩ := mr
      rw [hp] at hh
      obtain ⟨h1, h2⟩ := ih m' rest' hp
      simp only at hh
      split at hh
      · simp only [Option.some.injEq, Prod.mk.injEq] at hh
        obtain ⟨rfl, rfl⟩ := hh
        refine ⟨List.mem_cons_of_mem _ h1, ?_⟩
        intro y hy
        rcases List.mem_cons.mp hy with hy | hy
        · subst hy; simp
        · exact List.mem_cons_of_mem _ (h2 y hy)
      · simp only [Option.some.injEq, Prod.mk.injEq] at hh
        obtain ⟨rfl, rfl⟩ := hh
        exact ⟨by simp, fun y hy => List.mem_cons_of_mem _ hy⟩

/-- what the backward pass needs of the parent table the forward pass returns -/
def Done (adj : Nat → List (Nat × Nat)) (start goal : Nat) (s : St C) : Prop :=
  ∃ rank : Nat → Nat, ParentOK adj s.came start rank ∧ (goal = start ∨ ∃ q, lookup goal s.came = some q) ∧
    rank goal < s.came.length + 2

theorem finv_done (adj : Nat → List (Nat × Nat)) (h : Nat → Nat → C) (hL : CostLaws h) (start goal : Nat) (early : Bool) (s : St C)
    (hI : FInv adj start goal early s) (hg : goal = start ∨ ∃ q, lookup goal s.came = some q)
    (rest : List (C × Nat)) : Done adj start goal { s with frontier := rest } := by
  refine ⟨rankOf s.cost, ⟨hI.adjacent, ?_, hI.parent_known⟩, hg, ?_⟩
  · intro n p e hl _
    obtain ⟨cp, cn, h1, h2, h3⟩ := hI.ordered n p e hl
    exact rankOf_lt_of_lt hL.trans hL.asymm s.cost p n cp cn h1 h2 h3
  · have := rankOf_le_length hL.asymm s.cost goal
    have := hI.sizes
    show rankOf s.cost goal < s.came.length + 2
    omega

theorem stopped_done (adj : Nat → List (Nat × Nat)) (h : Nat → Nat → C) (hL : CostLaws h) (start goal : Nat) (early : Bool) (s' : St C)
    (hS : Stopped adj start goal early s') (hgs : goal ≠ start) : Done adj start goal s' := by
  obtain ⟨s, cur, e, hI, hadj, ⟨cc, hcc⟩, hcur, he, hcame, hcost⟩ := hS
  have hgc : lookup goal s.cost = none := hI.goal_fresh he hgs
  refine ⟨rankOf s.cost, ⟨?_, ?_, ?_⟩, ?_, ?_⟩
  · intro n p e' hl
    rw [hcame] at hl
    by_cases hn : n = goal
    · subst hn; rw [lookup_set_self] at hl; cases hl; exact hadj
    · rw [lookup_set_ne _ _ _ _ hn] at hl; exact hI.adjacent n p e' hl
  · intro n p e' hl _
    rw [hcame] at hl
    by_cases hn : n = goal
    · subst hn; rw [lookup_set_self] at hl; cases hl
      have h1 := rankOf_lt_length hL.asymm s.cost cur cc hcc
      have h2 : rankOf s.cost n = s.cost.length := by unfold rankOf; rw [hgc]
      omega
    · rw [lookup_set_ne _ _ _ _ hn] at hl
      obtain ⟨cp, cn, h1, h2, h3⟩ := hI.ordered n p e' hl
      exact rankOf_lt_of_lt hL.trans hL.asymm s.cost p n cp cn h1 h2 h3
  · intro n p e' hl
    rw [hcame] at hl ⊢
    by_cases hn : n = goal
    · subst hn; rw [lookup_set_self] at hl; cases hl
      rcases hcur with h1 | h1
      · exact Or.inl h1
      · exact Or.inr (lookup_set_some _ _ _ _ h1)
    · rw [lookup_set_ne _ _ _ _ hn] at hl
      rcases hI.parent_known n p e' hl with h1 | h1
      · exact Or.inl h1
      · exact Or.inr (lookup_set_some _ _ _ _ h1)
  · right; rw [hcame]; exact ⟨_, lookup_set_self _ _ _⟩
  · have h1 := rankOf_le_length hL.asymm s.cost goal
    have h2 := hI.sizes
    have h3 := length_set_ge goal (cur, e) s.came
    rw [hcame]; omega

/-- **C11 forward pass**: whenever the loop returns (either way), the parent table it returns satisfies what the
    backward pass needs — for every graph, every heuristic obeying `CostLaws`, every budget -/
theorem forward_done (adj : Nat → List (Nat × Nat)) (h : Nat → Nat → C) (hL : CostLaws h) (start goal : Nat) (early : Bool)
    (hgs : goal ≠ start) :
    ∀ (fuel : Nat) (s s' : St C), FInv adj start goal early s → forward adj h goal early fuel s = .found s' →
      Done adj start goal s' := by
  intro fuel
  induction fuel with
  | zero => intro s s' _ hf; simp [forward] at hf
  | succ fuel ih =>
    intro s s' hI hf
    simp only [forward] at hf
    cases hp : popMin s.frontier with
    | none => rw [hp] at hf; cases hf
    | some mr =>
      obtain ⟨⟨pr, current⟩, rest⟩ := mr
      rw [hp] at hf
      obtain ⟨hm, hrest⟩ := popMin_mem _ _ _ hp
      obtain ⟨hcc, hcur⟩ := hI.frontier_ok _ hm
      simp only at hf hcc hcur
      by_cases hcg : (current == goal) = true
      · simp only [hcg, if_true, Outcome.found.injEq] at hf
        subst hf
        have : current = goal := by simpa using hcg
        subst this
        exact finv_done adj h hL start current early s hI hcur rest
      · simp only [hcg, Bool.false_eq_true, if_false] at hf
        have hI' : FInv adj start goal early { s with frontier := rest } :=
          ⟨hI.adjacent, hI.ordered, fun x hx => hI.frontier_ok x (hrest x hx), hI.parent_known, hI.goal_fresh, hI.sizes⟩
        obtain ⟨r1, r2⟩ := relax_inv adj h hL start goal early current (adj current) _ (fun x hx => hx) hI' hcc hcur
        by_cases hr : (relax h goal early current (adj current) { s with frontier := rest }).2 = true
        · simp only [hr, if_true, Outcome.found.injEq] at hf
          subst hf
          exact stopped_done adj h hL start goal early _ (r2 hr) hgs
        · have hr' : (relax h goal early current (adj current) { s with frontier := rest }).2 = false := by simpa using hr
          simp only [hr', Bool.false_eq_true, if_false] at hf
          exact ih _ s' (r1 hr') hf

/-- **C11 (path finding returns a valid chain, unconditionally)**: whatever the graph, the heuristic (obeying
    `CostLaws`), the budget and the early-stopping flag — if the forward pass does not exhaust its budget, the
    search returns a chain from the goal back to the start: `nodes[0] = goal`, `nodes[-1] = start`, one edge per
    step, consecutive nodes joined by the listed edge (in particular the backward pass never hits a missing key
    and terminates); if it does exhaust it, the result is `none` (`PathFindingError`). -/
theorem path_valid (adj : Nat → List (Nat × Nat)) (h : Nat → Nat → C) (hL : CostLaws h) (zero : C) (start goal : Nat)
    (early : Bool) (maxits : Nat) :
    (forward adj h goal early maxits (initSt zero start) = .exhausted ∧ path adj h zero start goal early maxits = none) ∨
    ∃ ns es, path adj h zero start goal early maxits = some (ns, es) ∧ ns.head? = some goal ∧ ns.getLast? = some start ∧
      es.length + 1 = ns.length ∧ ValidChain adj ns es := by
  cases hf : forward adj h goal early maxits (initSt zero start) with
  | exhausted => left; exact ⟨rfl, by simp [path, hf]⟩
  | found s =>
    right
    have hdone : Done adj start goal s := by
      by_cases hgs : goal = start
      · subst hgs
        cases maxits with
        | zero => simp [forward] at hf
        | succ m =>
          have : s.came = [] := by
            simp only [forward, initSt, popMin, beq_self_eq_true, if_true, Outcome.found.injEq] at hf
            rw [← hf]
          refine ⟨fun _ => 0, ⟨?_, ?_, ?_⟩, Or.inl rfl, by show 0 < _; omega⟩ <;> (intro n p e hl; rw [this] at hl; simp [lookup] at hl)
      · exact forward_done adj h hL start goal early hgs maxits _ s (finv_init adj start goal early zero) hf
    obtain ⟨rank, hok, hk, hr⟩ := hdone
    obtain ⟨ns, es, h1, h2, h3, h4, h5⟩ := backward_valid adj s.came start goal rank hok (s.came.length + 2) hr hk
    exact ⟨ns, es, by simp [path, hf, h1], h2, h3, h4, h5⟩

/-! ### non-vacuity: a path on a 3-cycle with unit costs -/

def exAdj : Nat → List (Nat × Nat) := fun p => [[(1, 0), (2, 2)], [(0, 0), (2, 1)], [(1, 1), (0, 2)]].getD p []

example : path exAdj (fun _ _ => (1 : Nat)) 0 0 2 false 10 = some ([2, 0], [2]) := by decide
example : path exAdj (fun _ _ => (1 : Nat)) 0 1 1 true 10 = some ([1], []) := by decide
example : validChainB exAdj [2, 0] [2] = true := by decide
/-- the cost laws are satisfiable: unit costs in `Nat` -/
example : CostLaws (fun _ _ => (1 : Nat)) := ⟨fun _ _ h => Nat.lt_asymm h, fun _ _ _ => Nat.lt_trans, fun c _ _ => Nat.lt_succ_self c⟩
example : wrap1 10 1 9 = 2 ∧ periodic2 10 (1, 1) (9, 2) = 5 := by decide

end C11
