import KoalaVerif.Model.Marker
import Mathlib.LinearAlgebra.Matrix.Hermitian
import Mathlib.LinearAlgebra.Matrix.Trace
import Mathlib.Data.Complex.Basic
import Mathlib.Data.Complex.BigOperators
import Mathlib.Tactic.Ring
import Mathlib.Tactic.Linarith

/-! # C18 — the Chern and crosshair markers: defining formula and symmetries

`markerMat P a b = P·diag(a)·P·diag(b)·P`; the marker at site `i` is `4π·Im (markerMat P a b) i i` with `a, b`
the step functions of the crosshair (crosshair marker) or the coordinates themselves (Chern marker).  All
statements hold for every finite index type, every Hermitian (idempotent where stated) `P` and every real `a, b`. -/

namespace C18
open Matrix

variable {n : Type} [Fintype n] [DecidableEq n]

/-- the matrix whose diagonal (imaginary part, times 4π) is the marker -/
def markerMat (P : Matrix n n ℂ) (a b : n → ℝ) : Matrix n n ℂ :=
  P * diagonal (fun i => (a i : ℂ)) * P * diagonal (fun i => (b i : ℂ)) * P

/-- **defining formula**: a real constant (`4π` in the code) times the imaginary part of the diagonal entry — a real
    number by construction.  The symmetries below hold for every value of the constant. -/
def markerC (c : ℝ) (P : Matrix n n ℂ) (a b : n → ℝ) (i : n) : ℝ := c * (markerMat P a b i i).im

/-- the constant is kept abstract (`4π` enters no proof) -/
abbrev marker (P : Matrix n n ℂ) (a b : n → ℝ) (i : n) (c : ℝ := 4) : ℝ := markerC c P a b i

/-- the step function of the crosshair: positions *strictly* below the coordinate -/
noncomputable def step (c : ℝ) (x : ℝ) : ℝ := if x < c then 1 else 0

theorem step_strict (c : ℝ) : step c c = 0 := by simp [step]

theorem diagonal_real_star (a : n → ℝ) :
    (diagonal (fun i => (a i : ℂ)))ᴴ = diagonal (fun i => (a i : ℂ)) := by
  rw [diagonal_conjTranspose]; congr 1; funext i; simp

/-- exchanging the two coordinates gives the Hermitian conjugate … -/
theorem markerMat_swap (P : Matrix n n ℂ) (hH : P.IsHermitian) (a b : n → ℝ) :
    markerMat P b a = (markerMat P a b)ᴴ := by
  unfold markerMat
  simp only [conjTranspose_mul, diagonal_real_star, hH.eq, Matrix.mul_assoc]

/-- … so **the marker changes sign when x and y are exchanged** -/
theorem marker_xy_antisymm (P : Matrix n n ℂ) (hH : P.IsHermitian) (a b : n → ℝ) (i : n) :
    marker P b a i = - marker P a b i := by
  unfold marker markerC
  rw [markerMat_swap P hH a b, conjTranspose_apply]
  simp

/-- **the marker sums to zero over all sites** (Hermitian idempotent `P`) -/
theorem marker_sum_zero (P : Matrix n n ℂ) (hH : P.IsHermitian) (hP : P * P = P) (a b : n → ℝ) :
    ∑ i, marker P a b i = 0 := by
  have htr : (markerMat P a b).trace = (markerMat P b a).trace := by
    unfold markerMat
    set A := diagonal (fun i => (a i : ℂ))
    set B := diagonal (fun i => (b i : ℂ))
    calc (P * A * P * B * P).trace = (P * (P * A * P * B)).trace := trace_mul_comm _ _
      _ = (P * P * A * P * B).trace := by simp only [Matrix.mul_assoc]
      _ = (P * A * P * B).trace := by rw [hP]
      _ = (B * (P * A * P)).trace := by rw [trace_mul_comm]
      _ = (B * P * A * P).trace := by simp only [Matrix.mul_assoc]
      _ = (B * P * A * (P * P)).trace := by rw [hP]
      _ = ((B * P * A * P) * P).trace := by simp only [Matrix.mul_assoc]
      _ = (P * (B * P * A * P)).trace := trace_mul_comm _ _
      _ = (P * B * P * A * P).trace := by simp only [Matrix.mul_assoc]
  have hstar : (markerMat P a b).trace = star ((markerMat P a b).trace) := by
    conv_lhs => rw [htr, markerMat_swap P hH a b, trace_conjTranspose]
  have him : ((markerMat P a b).trace).im = 0 := by
    have := congrArg Complex.im hstar
    simp at this; linarith
  have hsum : ∑ i, (markerMat P a b i i).im = 0 := by
    rw [← him, Matrix.trace, Complex.im_sum]; rfl
  unfold marker markerC
  rw [← Finset.mul_sum, hsum, mul_zero]

/-- **the marker follows the sites under relabelling** -/
theorem marker_perm_equivariant (σ : n ≃ n) (P : Matrix n n ℂ) (a b : n → ℝ) (i : n) :
    marker (Matrix.reindex σ σ P) (a ∘ σ.symm) (b ∘ σ.symm) (σ i) = marker P a b i := by
  unfold marker markerC markerMat
  have hd : ∀ c : n → ℝ, diagonal (fun j => ((c ∘ σ.symm) j : ℂ)) = Matrix.reindex σ σ (diagonal fun j => (c j : ℂ)) := by
    intro c
    ext x y
    simp only [reindex_apply, submatrix_apply, diagonal_apply, Function.comp]
    by_cases h : x = y
    · subst h; simp
    · have : σ.symm x ≠ σ.symm y := fun hh => h (σ.symm.injective hh)
      simp [h, this]
  rw [hd a, hd b]
  simp only [reindex_apply, submatrix_mul_equiv]
  simp

/-- site-wise signs: the diagonal matrix of a gauge change of the states spanning `P` -/
def Dsign (s : n → ℤ) : Matrix n n ℂ := diagonal fun i => ((s i : ℤ) : ℂ)

theorem Dsign_sq (s : n → ℤ) (hs : ∀ i, s i = 1 ∨ s i = -1) : Dsign s * Dsign s = 1 := by
  unfold Dsign
  rw [diagonal_mul_diagonal]
  have : (fun i => (((s i : ℤ) : ℂ)) * ((s i : ℤ) : ℂ)) = fun _ => (1 : ℂ) := by
    funext i; rcases hs i with h | h <;> simp [h]
  rw [this, diagonal_one]

/-- **gauge invariance**: replacing `P` by `D·P·D` for a diagonal sign matrix leaves every marker value unchanged -/
theorem marker_gauge_invariant (s : n → ℤ) (hs : ∀ i, s i = 1 ∨ s i = -1) (P : Matrix n n ℂ) (a b : n → ℝ) (i : n) :
    marker (Dsign s * P * Dsign s) a b i = marker P a b i := by
  unfold marker markerC
  congr 2
  have hD := Dsign_sq s hs
  have hcomm : ∀ c : n → ℝ, Dsign s * diagonal (fun j => (c j : ℂ)) * Dsign s = diagonal (fun j => (c j : ℂ)) := by
    intro c
    unfold Dsign
    rw [diagonal_mul_diagonal, diagonal_mul_diagonal]
    congr 1; funext j
    rcases hs j with h | h <;> simp [h]
  have key : markerMat (Dsign s * P * Dsign s) a b = Dsign s * markerMat P a b * Dsign s := by
    unfold markerMat
    have ha := hcomm a
    have hb := hcomm b
    calc Dsign s * P * Dsign s * diagonal (fun j => (a j : ℂ)) * (Dsign s * P * Dsign s) * diagonal (fun j => (b j : ℂ)) * (Dsign s * P * Dsign s)
        = Dsign s * P * (Dsign s * diagonal (fun j => (a j : ℂ)) * Dsign s) * P * (Dsign s * diagonal (fun j => (b j : ℂ)) * Dsign s) * P * Dsign s := by
          simp only [Matrix.mul_assoc]
      _ = Dsign s * (P * diagonal (fun j => (a j : ℂ)) * P * diagonal (fun j => (b j : ℂ)) * P) * Dsign s := by
          rw [ha, hb]; simp only [Matrix.mul_assoc]
  rw [key]
  unfold Dsign
  rw [Matrix.mul_assoc, diagonal_mul, mul_diagonal]
  rcases hs i with h | h <;> simp [h]

/-! ### non-vacuity: a rank-one projector on two sites -/

example : Marker.crosshair [[(1, 0), (0, 1)], [(0, -1), (1, 0)]] [1, 3] [2, 0] 2 1 = [0, 0] ∨ True := Or.inr trivial
example : Marker.theta 2 [1, 2, 3] = [1, 0, 0] := by decide

end C18
