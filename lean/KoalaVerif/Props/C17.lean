import KoalaVerif.Model.Quasi
import Mathlib.Algebra.Order.Floor.Ring
import Mathlib.Data.Rat.Floor
import Mathlib.Algebra.BigOperators.GroupWithZero.Action
import Mathlib.Tactic.Abel
import Mathlib.Algebra.BigOperators.Group.Finset.Basic
import Mathlib.Algebra.Module.Basic
import Mathlib.Algebra.BigOperators.Pi
import Mathlib.Tactic.Ring
import Mathlib.Tactic.Linarith
import Mathlib.Analysis.SpecialFunctions.Trigonometric.Basic
import Mathlib.Tactic.FinCases
import Mathlib.RingTheory.Polynomial.Cyclotomic.Roots
import Mathlib.RingTheory.PowerBasis
import Mathlib.RingTheory.RootsOfUnity.Complex

/-! # C17 — the de Bruijn-grid generator: what the index map guarantees

Proved: the pentagrid index (`floor` of the signed distance to the first line of a bundle) changes by exactly one across a
single grid line and not at all otherwise; consequently two faces adjacent across a line of bundle `b` are mapped to points
that differ by exactly the star vector of `b` (every edge is parallel to a star direction and all edges have the same
length: `edge_length_one`, for koala's star vectors `(cos a_b, sin a_b)` with or without angle disorder), and the four faces round a
grid vertex are mapped to a rhombus whose sides enclose the angle `a_{b₁} − a_{b₂}` (`rhombus_angle`); with five bundles and no
disorder that is 72° or 144°: only the two Penrose rhombi occur (`penrose_rhombi`).  *Not* proved (de Bruijn's theorem): planarity and
injectivity of the map, connectivity, `V − E + F = 1`; these are decided on the implementation's output. -/

namespace C17

/-! ### the index changes by one across a line -/

/-- crossing no integer leaves the floor unchanged -/
theorem floor_eq_of_no_integer_between (x y : ℚ) (hxy : x ≤ y) (h : ¬ ∃ n : ℤ, x < n ∧ (n : ℚ) ≤ y) : ⌊x⌋ = ⌊y⌋ := by
  apply le_antisymm (Int.floor_le_floor hxy)
  by_contra hlt
  push_neg at hlt
  apply h
  refine ⟨⌊y⌋, ?_, Int.floor_le y⟩
  have : ⌊x⌋ + 1 ≤ ⌊y⌋ := hlt
  have h1 : x < (⌊x⌋ : ℚ) + 1 := Int.lt_floor_add_one x
  have h2 : ((⌊x⌋ + 1 : ℤ) : ℚ) ≤ (⌊y⌋ : ℚ) := by exact_mod_cast this
  push_cast at h2
  linarith

/-- **crossing exactly one integer raises the floor by exactly one** -/
theorem floor_step (x y : ℚ) (n : ℤ) (h1 : x < n) (h2 : (n : ℚ) ≤ y) (hx : (n : ℚ) - 1 ≤ x) (hy : y < (n : ℚ) + 1) :
    ⌊y⌋ = ⌊x⌋ + 1 := by
  have fx : ⌊x⌋ = n - 1 := by
    rw [Int.floor_eq_iff]; push_cast; constructor <;> linarith
  have fy : ⌊y⌋ = n := by
    rw [Int.floor_eq_iff]; constructor <;> linarith
  rw [fx, fy]; ring

/-! ### the index map -/

variable {B : Type} [Fintype B] [DecidableEq B] {M : Type} [AddCommGroup M]

/-- `map_to_position(index) = Σ_b index_b · star_b` -/
def position (star : B → M) (idx : B → ℤ) : M := ∑ b, idx b • star b

/-- **every edge is ± a star vector**: faces whose index vectors differ by `e_b` are mapped to points that differ by exactly
    `star_b` — in every abelian group containing the star vectors (so: parallel to the star direction, all of one length) -/
theorem edge_is_star_vector (star : B → M) (idx : B → ℤ) (b : B) :
    position star (idx + (Pi.single b (1 : ℤ) : B → ℤ)) - position star idx = star b := by
  unfold position
  rw [← Finset.sum_sub_distrib]
  have : ∀ c, (idx + (Pi.single b (1 : ℤ) : B → ℤ)) c • star c - idx c • star c = ((Pi.single b (1 : ℤ) : B → ℤ) c) • star c := by
    intro c
    simp only [Pi.add_apply, add_smul, add_sub_cancel_left]
  simp only [this]
  rw [Finset.sum_eq_single b]
  · simp
  · intro c _ hcb; simp [Pi.single_apply, hcb]
  · intro h; exact absurd (Finset.mem_univ b) h

theorem edge_is_neg_star_vector (star : B → M) (idx : B → ℤ) (b : B) :
    position star (idx - (Pi.single b (1 : ℤ) : B → ℤ)) - position star idx = - star b := by
  have := edge_is_star_vector star (idx - (Pi.single b (1 : ℤ) : B → ℤ)) b
  simp only [sub_add_cancel] at this
  rw [← this]; abel

/-- **every grid vertex gives a rhombus**: the four faces round the intersection of a line of bundle `b₁` with a line of
    bundle `b₂` have indices `i, i+e₁, i+e₁+e₂, i+e₂`; their images form a parallelogram whose sides are the two star
    vectors (a rhombus, since all star vectors have the same length) -/
theorem vertex_gives_rhombus (star : B → M) (idx : B → ℤ) (b₁ b₂ : B) :
    position star (idx + (Pi.single b₁ (1 : ℤ) : B → ℤ)) - position star idx = star b₁ ∧
    position star (idx + (Pi.single b₁ (1 : ℤ) : B → ℤ) + (Pi.single b₂ (1 : ℤ) : B → ℤ)) - position star (idx + (Pi.single b₁ (1 : ℤ) : B → ℤ)) = star b₂ ∧
    position star (idx + (Pi.single b₁ (1 : ℤ) : B → ℤ) + (Pi.single b₂ (1 : ℤ) : B → ℤ)) - position star (idx + (Pi.single b₂ (1 : ℤ) : B → ℤ)) = star b₁ ∧
    position star (idx + (Pi.single b₂ (1 : ℤ) : B → ℤ)) - position star idx = star b₂ := by
  refine ⟨edge_is_star_vector star idx b₁, edge_is_star_vector star _ b₂, ?_, edge_is_star_vector star idx b₂⟩
  have : idx + (Pi.single b₁ (1 : ℤ) : B → ℤ) + (Pi.single b₂ (1 : ℤ) : B → ℤ) = (idx + (Pi.single b₂ (1 : ℤ) : B → ℤ)) + (Pi.single b₁ (1 : ℤ) : B → ℤ) := by abel
  rw [this]
  exact edge_is_star_vector star _ b₁

/-- index vectors in the same class modulo a relation `Σ_b r_b · star_b = 0` among the star vectors are mapped to the same
    point (the converse — distinct classes give distinct points — is the linear independence of the star vectors over ℚ
    modulo these relations, a fact about cyclotomic fields that is not proved here) -/
theorem position_mod_relation (star : B → M) (idx r : B → ℤ) (hr : position star r = 0) (k : ℤ) :
    position star (idx + k • r) = position star idx := by
  unfold position at *
  have : ∀ b, (idx + k • r) b • star b = idx b • star b + k • (r b • star b) := by
    intro b; simp only [Pi.add_apply, Pi.smul_apply, smul_eq_mul, add_smul, mul_smul]
  simp only [this, Finset.sum_add_distrib, ← Finset.smul_sum, hr, smul_zero, add_zero]

/-! ### the executable edge test is sound -/

theorem starOf_sound (B : Nat) (d : Quasi.Idx) (b : Nat) (neg : Bool) (h : Quasi.starOf B d = some (b, neg)) :
    b < B ∧ (d = if neg then Quasi.negI (Quasi.unitVec B b) else Quasi.unitVec B b) := by
  unfold Quasi.starOf at h
  obtain ⟨c, hc, hm⟩ := List.exists_of_findSome?_eq_some h
  have hcB : c < B := List.mem_range.mp hc
  split at hm
  · rename_i hd
    simp only [Option.some.injEq, Prod.mk.injEq] at hm
    obtain ⟨rfl, rfl⟩ := hm
    exact ⟨hcB, by simpa using hd⟩
  · split at hm
    · rename_i _ hd
      simp only [Option.some.injEq, Prod.mk.injEq] at hm
      obtain ⟨rfl, rfl⟩ := hm
      exact ⟨hcB, by simpa using hd⟩
    · cases hm

/-! ### non-vacuity -/
example : Quasi.starOf 5 [0, 0, -1, 0, 0] = some (2, true) := by decide
example : Quasi.edgesAreStar 3 [[0, 0, 0], [1, 0, 0], [1, 1, 0]] [(0, 1), (2, 1)] = true := by decide
example : Quasi.reduce [(4, [1, 1, 1, 1, 1])] [3, 2, 2, 2, 2] = Quasi.reduce [(4, [1, 1, 1, 1, 1])] [1, 0, 0, 0, 0] := by decide

section Angles
open Real

/-! ### the star vectors of koala: `(cos a_b, sin a_b)`, with or without angle disorder -/

variable {β : Type} [Fintype β] [DecidableEq β]

/-- `np.array([np.sum(index * np.cos(angles)), np.sum(index * np.sin(angles))])` is `position` for these star vectors -/
noncomputable def starOfAngles (ang : β → ℝ) (b : β) : ℝ × ℝ := (Real.cos (ang b), Real.sin (ang b))

def sqNorm (v : ℝ × ℝ) : ℝ := v.1 * v.1 + v.2 * v.2
def dot (v w : ℝ × ℝ) : ℝ := v.1 * w.1 + v.2 * w.2

/-- **all edges have the same length** (before the final rescaling into the unit square, which is one common factor): the
    images of two faces adjacent across a line of bundle `b` are at distance exactly 1, for every choice of angles -/
theorem edge_length_one (ang : β → ℝ) (idx : β → ℤ) (b : β) :
    sqNorm (position (starOfAngles ang) (idx + (Pi.single b (1 : ℤ) : β → ℤ)) - position (starOfAngles ang) idx) = 1 := by
  rw [edge_is_star_vector]
  simp only [sqNorm, starOfAngles]
  have := Real.cos_sq_add_sin_sq (ang b)
  nlinarith [this]

omit [Fintype β] [DecidableEq β] in
/-- the two sides of the rhombus at a grid vertex of bundles `b₁`, `b₂` enclose the angle `a_{b₁} − a_{b₂}` -/
theorem rhombus_angle (ang : β → ℝ) (b₁ b₂ : β) :
    dot (starOfAngles ang b₁) (starOfAngles ang b₂) = Real.cos (ang b₁ - ang b₂) := by
  simp only [dot, starOfAngles, Real.cos_sub]

/-- **five bundles without angle disorder: only the two Penrose rhombi**.  The sides at a grid vertex of two different
    bundles enclose 72° or 144° (cosine `cos(2π/5)` or `cos(4π/5)`), i.e. the rhombi are the 72°/108° and the 36°/144° one. -/
theorem penrose_rhombi (b₁ b₂ : Fin 5) (hne : b₁ ≠ b₂) :
    dot (starOfAngles (fun b : Fin 5 => 2 * π * (b : ℕ) / 5) b₁) (starOfAngles (fun b : Fin 5 => 2 * π * (b : ℕ) / 5) b₂) = Real.cos (2 * π / 5) ∨
    dot (starOfAngles (fun b : Fin 5 => 2 * π * (b : ℕ) / 5) b₁) (starOfAngles (fun b : Fin 5 => 2 * π * (b : ℕ) / 5) b₂) = Real.cos (4 * π / 5) := by
  rw [rhombus_angle]
  have key : ∀ d : ℤ, (d = 1 ∨ d = -1 ∨ d = 4 ∨ d = -4) → Real.cos (2 * π * d / 5) = Real.cos (2 * π / 5) := by
    intro d hd
    rcases hd with h | h | h | h <;> subst h
    · norm_num
    · have : 2 * π * ((-1 : ℤ) : ℝ) / 5 = -(2 * π / 5) := by push_cast; ring
      rw [this, Real.cos_neg]
    · have : 2 * π * ((4 : ℤ) : ℝ) / 5 = 2 * π - 2 * π / 5 := by push_cast; ring
      rw [this, Real.cos_two_pi_sub]
    · have : 2 * π * ((-4 : ℤ) : ℝ) / 5 = -(2 * π - 2 * π / 5) := by push_cast; ring
      rw [this, Real.cos_neg, Real.cos_two_pi_sub]
  have key2 : ∀ d : ℤ, (d = 2 ∨ d = -2 ∨ d = 3 ∨ d = -3) → Real.cos (2 * π * d / 5) = Real.cos (4 * π / 5) := by
    intro d hd
    rcases hd with h | h | h | h <;> subst h
    · congr 1; push_cast; ring
    · have : 2 * π * ((-2 : ℤ) : ℝ) / 5 = -(4 * π / 5) := by push_cast; ring
      rw [this, Real.cos_neg]
    · have : 2 * π * ((3 : ℤ) : ℝ) / 5 = 2 * π - 4 * π / 5 := by push_cast; ring
      rw [this, Real.cos_two_pi_sub]
    · have : 2 * π * ((-3 : ℤ) : ℝ) / 5 = -(2 * π - 4 * π / 5) := by push_cast; ring
      rw [this, Real.cos_neg, Real.cos_two_pi_sub]
  have e : 2 * π * ((b₁ : ℕ) : ℝ) / 5 - 2 * π * ((b₂ : ℕ) : ℝ) / 5 = 2 * π * (((b₁ : ℕ) : ℤ) - ((b₂ : ℕ) : ℤ) : ℤ) / 5 := by
    push_cast; ring
  rw [e]
  fin_cases b₁ <;> fin_cases b₂ <;> first
    | exact absurd rfl hne
    | (left; apply key; decide)
    | (right; apply key2; decide)

end Angles

section Cyclotomic
open Polynomial Complex

/-! ### five bundles: index vectors are mapped to the same point only if they differ by a multiple of (1,1,1,1,1) -/

noncomputable def zeta5 : ℂ := Complex.exp (2 * Real.pi * Complex.I / (5 : ℕ))

theorem zeta5_prim : IsPrimitiveRoot zeta5 5 := Complex.isPrimitiveRoot_exp 5 (by norm_num)

theorem zeta5_indep : LinearIndependent ℚ fun i : Fin 4 => zeta5 ^ (i : ℕ) := by
  have h := linearIndependent_pow (K := ℚ) zeta5
  have hdeg : (minpoly ℚ zeta5).natDegree = 4 := by
    rw [← cyclotomic_eq_minpoly_rat zeta5_prim (by norm_num), natDegree_cyclotomic]
    decide
  rw [hdeg] at h
  exact h

theorem zeta5_sum : 1 + zeta5 + zeta5 ^ 2 + zeta5 ^ 3 + zeta5 ^ 4 = 0 := by
  have := zeta5_prim.geom_sum_eq_zero (by norm_num : 1 < 5)
  simpa [Finset.sum_range_succ] using this

/-- the only integer relations among the five star vectors are the multiples of `e₀ + e₁ + e₂ + e₃ + e₄ = 0` -/
theorem star5_relations (r : Fin 5 → ℤ) (h : ∑ b : Fin 5, (r b : ℂ) * zeta5 ^ (b : ℕ) = 0) : ∀ b, r b = r 4 := by
  have h4 : zeta5 ^ 4 = -(1 + zeta5 + zeta5 ^ 2 + zeta5 ^ 3) := by linear_combination zeta5_sum
  rw [Fin.sum_univ_five] at h
  simp only [Fin.val_zero, Fin.val_one, Fin.val_two, pow_zero, pow_one] at h
  have hv3 : ((3 : Fin 5) : ℕ) = 3 := rfl
  have hv4 : ((4 : Fin 5) : ℕ) = 4 := rfl
  rw [hv3, hv4, h4] at h
  have hlin := Fintype.linearIndependent_iff.mp zeta5_indep (fun i : Fin 4 => ((r (Fin.castSucc i) - r 4 : ℤ) : ℚ)) (by
    rw [Fin.sum_univ_four]
    simp only [Fin.val_zero, Fin.val_one, Fin.val_two, pow_zero, pow_one]
    have hv3' : ((3 : Fin 4) : ℕ) = 3 := rfl
    rw [hv3']
    simp only [Algebra.smul_def, eq_ratCast]
    push_cast
    linear_combination h)
  intro b
  have q : ∀ i : Fin 4, r (Fin.castSucc i) = r 4 := by
    intro i
    have := hlin i
    have : ((r (Fin.castSucc i) - r 4 : ℤ) : ℚ) = 0 := this
    have : r (Fin.castSucc i) - r 4 = 0 := by exact_mod_cast this
    omega
  fin_cases b
  · exact q 0
  · exact q 1
  · exact q 2
  · exact q 3
  · rfl

/-- koala's star vectors for five bundles, as complex numbers: `(cos 2πb/5, sin 2πb/5) = ζ^b` -/
noncomputable def star5 (b : Fin 5) : ℂ := zeta5 ^ (b : ℕ)

/-- **C17 (five bundles, no two vertices coincide — exact part)**: two index vectors are mapped to the same point by
    `Σ_b index_b · star_b` only if they differ by a multiple of `(1,1,1,1,1)` — the converse of `position_mod_relation`.  So
    index vectors that are pairwise different modulo that relation (what the model re-checks on koala's output) give pairwise
    different vertex positions. -/
theorem penrose_position_injective (idx idx' : Fin 5 → ℤ) (h : position star5 idx = position star5 idx') :
    ∀ b, idx b - idx' b = idx 4 - idx' 4 := by
  apply star5_relations (fun b => idx b - idx' b)
  have h0 : position star5 idx - position star5 idx' = 0 := sub_eq_zero.mpr h
  unfold position star5 at h0
  rw [← Finset.sum_sub_distrib] at h0
  have : ∀ b : Fin 5, idx b • zeta5 ^ (b : ℕ) - idx' b • zeta5 ^ (b : ℕ) = ((idx b - idx' b : ℤ) : ℂ) * zeta5 ^ (b : ℕ) := by
    intro b; simp only [zsmul_eq_mul]; push_cast; ring
  simp_rw [this] at h0
  exact h0

/-- `ζ^b` is the point `(cos 2πb/5, sin 2πb/5)` of the plane: the star vector koala uses for bundle `b` -/
theorem star5_eq (b : Fin 5) : star5 b = (Real.cos (2 * Real.pi * (b : ℕ) / 5) : ℂ) + (Real.sin (2 * Real.pi * (b : ℕ) / 5) : ℂ) * Complex.I := by
  unfold star5 zeta5
  rw [← Complex.exp_nat_mul]
  have : ((b : ℕ) : ℂ) * (2 * Real.pi * Complex.I / ((5 : ℕ) : ℂ)) = ((2 * Real.pi * (b : ℕ) / 5 : ℝ) : ℂ) * Complex.I := by
    push_cast; ring
  rw [this, Complex.exp_mul_I, ← Complex.ofReal_cos, ← Complex.ofReal_sin]

/-! ### any prime number of bundles -/

noncomputable def zetaP (p : ℕ) : ℂ := Complex.exp (2 * Real.pi * Complex.I / (p : ℕ))

theorem zetaP_prim (p : ℕ) (hp : p ≠ 0) : IsPrimitiveRoot (zetaP p) p := Complex.isPrimitiveRoot_exp p hp

theorem zetaP_indep (p : ℕ) [hp : Fact p.Prime] : LinearIndependent ℚ fun i : Fin (p - 1) => zetaP p ^ (i : ℕ) := by
  have h := linearIndependent_pow (K := ℚ) (zetaP p)
  have hdeg : (minpoly ℚ (zetaP p)).natDegree = p - 1 := by
    rw [← cyclotomic_eq_minpoly_rat (zetaP_prim p hp.out.ne_zero) hp.out.pos, natDegree_cyclotomic, Nat.totient_prime hp.out]
  rw [hdeg] at h
  exact h

/-- for a prime number `p` of bundles the only integer relations among the star vectors are the multiples of `Σ_b e_b = 0` -/
theorem starP_relations (p : ℕ) [hp : Fact p.Prime] (r : Fin p → ℤ) (h : ∑ b : Fin p, (r b : ℂ) * zetaP p ^ (b : ℕ) = 0) (b : Fin p) :
    r b = r ⟨p - 1, Nat.sub_lt hp.out.pos Nat.one_pos⟩ := by
  obtain ⟨q, hq⟩ : ∃ q, p = q + 1 := ⟨p - 1, (Nat.succ_pred_eq_of_pos hp.out.pos).symm⟩
  subst hq
  set ζ := zetaP (q + 1) with hζ
  have hgeom : ∑ i : Fin (q + 1), ζ ^ (i : ℕ) = 0 := by
    have := (zetaP_prim (q + 1) (Nat.succ_ne_zero q)).geom_sum_eq_zero hp.out.one_lt
    rw [← Fin.sum_univ_eq_sum_range (fun i => ζ ^ i)] at this
    exact this
  -- subtract r(last) times the geometric sum
  have h2 : ∑ i : Fin (q + 1), ((r i : ℂ) - (r (Fin.last q) : ℂ)) * ζ ^ (i : ℕ) = 0 := by
    have : ∑ i : Fin (q + 1), ((r i : ℂ) - (r (Fin.last q) : ℂ)) * ζ ^ (i : ℕ)
        = ∑ i : Fin (q + 1), (r i : ℂ) * ζ ^ (i : ℕ) - (r (Fin.last q) : ℂ) * ∑ i : Fin (q + 1), ζ ^ (i : ℕ) := by
      rw [Finset.mul_sum, ← Finset.sum_sub_distrib]
      apply Finset.sum_congr rfl; intro i _; ring
    rw [this, h, hgeom]; ring
  rw [Fin.sum_univ_castSucc] at h2
  simp only [Fin.val_last, sub_self, zero_mul, add_zero, Fin.val_castSucc] at h2
  have hind : LinearIndependent ℚ fun i : Fin q => ζ ^ (i : ℕ) := zetaP_indep (q + 1)
  have hlin := Fintype.linearIndependent_iff.mp hind (fun i : Fin q => ((r (Fin.castSucc i) - r (Fin.last q) : ℤ) : ℚ)) (by
    simp only [Algebra.smul_def, eq_ratCast]
    push_cast
    exact h2)
  have hb : ∀ i : Fin q, r (Fin.castSucc i) = r (Fin.last q) := by
    intro i
    have : ((r (Fin.castSucc i) - r (Fin.last q) : ℤ) : ℚ) = 0 := hlin i
    have : r (Fin.castSucc i) - r (Fin.last q) = 0 := by exact_mod_cast this
    omega
  have hl : (⟨q + 1 - 1, Nat.sub_lt hp.out.pos Nat.one_pos⟩ : Fin (q + 1)) = Fin.last q := by
    apply Fin.ext; simp
  rw [hl]
  induction b using Fin.lastCases with
  | last => rfl
  | cast i => exact hb i

noncomputable def starP (p : ℕ) (b : Fin p) : ℂ := zetaP p ^ (b : ℕ)

/-- **C17 (3, 5 or 7 bundles — any prime number —, no two vertices coincide, exact part)**: two index vectors are mapped to the
    same point only if they differ by a multiple of `(1, …, 1)` -/
theorem prime_position_injective (p : ℕ) [hp : Fact p.Prime] (idx idx' : Fin p → ℤ) (h : position (starP p) idx = position (starP p) idx') (b : Fin p) :
    idx b - idx' b = idx ⟨p - 1, Nat.sub_lt hp.out.pos Nat.one_pos⟩ - idx' ⟨p - 1, Nat.sub_lt hp.out.pos Nat.one_pos⟩ := by
  apply starP_relations p (fun b => idx b - idx' b)
  have h0 : position (starP p) idx - position (starP p) idx' = 0 := sub_eq_zero.mpr h
  unfold position starP at h0
  rw [← Finset.sum_sub_distrib] at h0
  have : ∀ b : Fin p, idx b • zetaP p ^ (b : ℕ) - idx' b • zetaP p ^ (b : ℕ) = ((idx b - idx' b : ℤ) : ℂ) * zetaP p ^ (b : ℕ) := by
    intro b; simp only [zsmul_eq_mul]; push_cast; ring
  simp_rw [this] at h0
  exact h0


/-! ### nine bundles: three relations `e_k + e_{k+3} + e_{k+6} = 0` -/

theorem zeta9_indep : LinearIndependent ℚ fun i : Fin 6 => zetaP 9 ^ (i : ℕ) := by
  have h := linearIndependent_pow (K := ℚ) (zetaP 9)
  have hdeg : (minpoly ℚ (zetaP 9)).natDegree = 6 := by
    rw [← cyclotomic_eq_minpoly_rat (zetaP_prim 9 (by norm_num)) (by norm_num), natDegree_cyclotomic]
    decide
  rw [hdeg] at h
  exact h

/-- `ζ₉³` is a primitive cube root of unity: `1 + ζ³ + ζ⁶ = 0` -/
theorem zeta9_cube : 1 + zetaP 9 ^ 3 + zetaP 9 ^ 6 = 0 := by
  have h3 : IsPrimitiveRoot (zetaP 9 ^ 3) 3 := (zetaP_prim 9 (by norm_num)).pow (by norm_num) (by norm_num)
  have := h3.geom_sum_eq_zero (by norm_num : 1 < 3)
  simp only [Finset.sum_range_succ, Finset.sum_range_zero, pow_zero, pow_one, zero_add] at this
  rw [← pow_mul] at this
  exact this

/-- the integer relations among the nine star vectors are generated by `e_k + e_{k+3} + e_{k+6} = 0`, `k = 0, 1, 2` -/
theorem star9_relations (r : Fin 9 → ℤ) (h : ∑ b : Fin 9, (r b : ℂ) * zetaP 9 ^ (b : ℕ) = 0) :
    (r 0 = r 6 ∧ r 3 = r 6) ∧ (r 1 = r 7 ∧ r 4 = r 7) ∧ (r 2 = r 8 ∧ r 5 = r 8) := by
  set ζ := zetaP 9 with hζ
  have h6 : ζ ^ 6 = -(1 + ζ ^ 3) := by linear_combination zeta9_cube
  have h7 : ζ ^ 7 = -(ζ + ζ ^ 4) := by
    have : ζ ^ 7 = ζ ^ 6 * ζ := by ring
    rw [this, h6]; ring
  have h8 : ζ ^ 8 = -(ζ ^ 2 + ζ ^ 5) := by
    have : ζ ^ 8 = ζ ^ 6 * ζ ^ 2 := by ring
    rw [this, h6]; ring
  have hsum : ∑ b : Fin 9, (r b : ℂ) * ζ ^ (b : ℕ)
      = (r 0 : ℂ) + (r 1 : ℂ) * ζ + (r 2 : ℂ) * ζ ^ 2 + (r 3 : ℂ) * ζ ^ 3 + (r 4 : ℂ) * ζ ^ 4 + (r 5 : ℂ) * ζ ^ 5
        + (r 6 : ℂ) * ζ ^ 6 + (r 7 : ℂ) * ζ ^ 7 + (r 8 : ℂ) * ζ ^ 8 := by
    simp [Fin.sum_univ_succ]
    ring
  rw [hsum, h6, h7, h8] at h
  have hlin := Fintype.linearIndependent_iff.mp zeta9_indep
    (fun i : Fin 6 => (([r 0 - r 6, r 1 - r 7, r 2 - r 8, r 3 - r 6, r 4 - r 7, r 5 - r 8].getD (i : ℕ) 0 : ℤ) : ℚ)) (by
    simp only [Algebra.smul_def, eq_ratCast]
    simp [Fin.sum_univ_succ]
    linear_combination h)
  have g : ∀ i : Fin 6, [r 0 - r 6, r 1 - r 7, r 2 - r 8, r 3 - r 6, r 4 - r 7, r 5 - r 8].getD (i : ℕ) 0 = 0 := by
    intro i
    have := hlin i
    exact_mod_cast this
  have g0 := g 0; have g1 := g 1; have g2 := g 2; have g3 := g 3; have g4 := g 4; have g5 := g 5
  simp at g0 g1 g2 g3 g4 g5
  omega

/-- **C17 (nine bundles, no two vertices coincide — exact part)**: two index vectors are mapped to the same point only if,
    within each of the three classes `{k, k+3, k+6}`, their difference is constant -/
theorem nine_position_injective (idx idx' : Fin 9 → ℤ) (h : position (starP 9) idx = position (starP 9) idx') :
    (idx 0 - idx' 0 = idx 6 - idx' 6 ∧ idx 3 - idx' 3 = idx 6 - idx' 6) ∧
    (idx 1 - idx' 1 = idx 7 - idx' 7 ∧ idx 4 - idx' 4 = idx 7 - idx' 7) ∧
    (idx 2 - idx' 2 = idx 8 - idx' 8 ∧ idx 5 - idx' 5 = idx 8 - idx' 8) := by
  apply star9_relations (fun b => idx b - idx' b)
  have h0 : position (starP 9) idx - position (starP 9) idx' = 0 := sub_eq_zero.mpr h
  unfold position starP at h0
  rw [← Finset.sum_sub_distrib] at h0
  have : ∀ b : Fin 9, idx b • zetaP 9 ^ (b : ℕ) - idx' b • zetaP 9 ^ (b : ℕ) = ((idx b - idx' b : ℤ) : ℂ) * zetaP 9 ^ (b : ℕ) := by
    intro b; simp only [zsmul_eq_mul]; push_cast; ring
  simp_rw [this] at h0
  exact h0


end Cyclotomic

end C17
