import KoalaVerif.Model.Quasi
import Mathlib.Algebra.Order.Floor.Ring
import Mathlib.Data.Rat.Floor
import Mathlib.Algebra.BigOperators.GroupWithZero.Action
import Mathlib.Tactic.Abel
import Mathlib.Algebra.BigOperators.Group.Finset.Basic
import Mathlib.Algebra.Module.Basic
import Mathlib.Algebra.BigOperators.Pi
import Mathlib.Tactic.Ring
import Mathlib.Tactic.Linarith
import Mathlib.Analysis.SpecialFunctions.Trigonometric.Basic
import Mathlib.Tactic.FinCases

/-! # C17 — the de Bruijn-grid generator: what the index map guarantees

Proved: the pentagrid index (`floor` of the signed distance to the first line of a bundle) changes by exactly one across a
single grid line and not at all otherwise; consequently two faces adjacent across a line of bundle `b` are mapped to points
that differ by exactly the star vector of `b` (every edge is parallel to a star direction and all edges have the same
length: `edge_length_one`, for koala's star vectors `(cos a_b, sin a_b)` with or without angle disorder), and the four faces round a
grid vertex are mapped to a rhombus whose sides enclose the angle `a_{b₁} − a_{b₂}` (`rhombus_angle`); with five bundles and no
disorder that is 72° or 144°: only the two Penrose rhombi occur (`penrose_rhombi`).  *Not* proved (de Bruijn's theorem): planarity and
injectivity of the map, connectivity, `V − E + F = 1`; these are decided on the implementation's output. -/

namespace C17

/-! ### the index changes by one across a line -/

/-- crossing no integer leaves the floor unchanged -/
theorem floor_eq_of_no_integer_between (x y : ℚ) (hxy : x ≤ y) (h : ¬ ∃ n : ℤ, x < n ∧ (n : ℚ) ≤ y) : ⌊x⌋ = ⌊y⌋ := by
  apply le_antisymm (Int.floor_le_floor hxy)
  by_contra hlt
  push_neg at hlt
  apply h
  refine ⟨⌊y⌋, ?_, Int.floor_le y⟩
  have : ⌊x⌋ + 1 ≤ ⌊y⌋ := hlt
  have h1 : x < (⌊x⌋ : ℚ) + 1 := Int.lt_floor_add_one x
  have h2 : ((⌊x⌋ + 1 : ℤ) : ℚ) ≤ (⌊y⌋ : ℚ) := by exact_mod_cast this
  push_cast at h2
  linarith

/-- **crossing exactly one integer raises the floor by exactly one** -/
theorem floor_step (x y : ℚ) (n : ℤ) (h1 : x < n) (h2 : (n : ℚ) ≤ y) (hx : (n : ℚ) - 1 ≤ x) (hy : y < (n : ℚ) + 1) :
    ⌊y⌋ = ⌊x⌋ + 1 := by
  have fx : ⌊x⌋ = n - 1 := by
    rw [Int.floor_eq_iff]; push_cast; constructor <;> linarith
  have fy : ⌊y⌋ = n := by
    rw [Int.floor_eq_iff]; constructor <;> linarith
  rw [fx, fy]; ring

/-! ### the index map -/

variable {B : Type} [Fintype B] [DecidableEq B] {M : Type} [AddCommGroup M]

/-- `map_to_position(index) = Σ_b index_b · star_b` -/
def position (star : B → M) (idx : B → ℤ) : M := ∑ b, idx b • star b

/-- **every edge is ± a star vector**: faces whose index vectors differ by `e_b` are mapped to points that differ by exactly
    `star_b` — in every abelian group containing the star vectors (so: parallel to the star direction, all of one length) -/
theorem edge_is_star_vector (star : B → M) (idx : B → ℤ) (b : B) :
    position star (idx + (Pi.single b (1 : ℤ) : B → ℤ)) - position star idx = star b := by
  unfold position
  rw [← Finset.sum_sub_distrib]
  have : ∀ c, (idx + (Pi.single b (1 : ℤ) : B → ℤ)) c • star c - idx c • star c = ((Pi.single b (1 : ℤ) : B → ℤ) c) • star c := by
    intro c
    simp only [Pi.add_apply, add_smul, add_sub_cancel_left]
  simp only [this]
  rw [Finset.sum_eq_single b]
  · simp
  · intro c _ hcb; simp [Pi.single_apply, hcb]
  · intro h; exact absurd (Finset.mem_univ b) h

theorem edge_is_neg_star_vector (star : B → M) (idx : B → ℤ) (b : B) :
    position star (idx - (Pi.single b (1 : ℤ) : B → ℤ)) - position star idx = - star b := by
  have := edge_is_star_vector star (idx - (Pi.single b (1 : ℤ) : B → ℤ)) b
  simp only [sub_add_cancel] at this
  rw [← this]; abel

/-- **every grid vertex gives a rhombus**: the four faces round the intersection of a line of bundle `b₁` with a line of
    bundle `b₂` have indices `i, i+e₁, i+e₁+e₂, i+e₂`; their images form a parallelogram whose sides are the two star
    vectors (a rhombus, since all star vectors have the same length) -/
theorem vertex_gives_rhombus (star : B → M) (idx : B → ℤ) (b₁ b₂ : B) :
    position star (idx + (Pi.single b₁ (1 : ℤ) : B → ℤ)) - position star idx = star b₁ ∧
    position star (idx + (Pi.single b₁ (1 : ℤ) : B → ℤ) + (Pi.single b₂ (1 : ℤ) : B → ℤ)) - position star (idx + (Pi.single b₁ (1 : ℤ) : B → ℤ)) = star b₂ ∧
    position star (idx + (Pi.single b₁ (1 : ℤ) : B → ℤ) + (Pi.single b₂ (1 : ℤ) : B → ℤ)) - position star (idx + (Pi.single b₂ (1 : ℤ) : B → ℤ)) = star b₁ ∧
    position star (idx + (Pi.single b₂ (1 : ℤ) : B → ℤ)) - position star idx = star b₂ := by
  refine ⟨edge_is_star_vector star idx b₁, edge_is_star_vector star _ b₂, ?_, edge_is_star_vector star idx b₂⟩
  have : idx + (Pi.single b₁ (1 : ℤ) : B → ℤ) + (Pi.single b₂ (1 : ℤ) : B → ℤ) = (idx + (Pi.single b₂ (1 : ℤ) : B → ℤ)) + (Pi.single b₁ (1 : ℤ) : B → ℤ) := by abel
  rw [this]
  exact edge_is_star_vector star _ b₁

/-- index vectors in the same class modulo a relation `Σ_b r_b · star_b = 0` among the star vectors are mapped to the same
    point (the converse — distinct classes give distinct points — is the linear independence of the star vectors over ℚ
    modulo these relations, a fact about cyclotomic fields that is not proved here) -/
theorem position_mod_relation (star : B → M) (idx r : B → ℤ) (hr : position star r = 0) (k : ℤ) :
    position star (idx + k • r) = position star idx := by
  unfold position at *
  have : ∀ b, (idx + k • r) b • star b = idx b • star b + k • (r b • star b) := by
    intro b; simp only [Pi.add_apply, Pi.smul_apply, smul_eq_mul, add_smul, mul_smul]
  simp only [this, Finset.sum_add_distrib, ← Finset.smul_sum, hr, smul_zero, add_zero]

/-! ### the executable edge test is sound -/

theorem starOf_sound (B : Nat) (d : Quasi.Idx) (b : Nat) (neg : Bool) (h : Quasi.starOf B d = some (b, neg)) :
    b < B ∧ (d = if neg then Quasi.negI (Quasi.unitVec B b) else Quasi.unitVec B b) := by
  unfold Quasi.starOf at h
  obtain ⟨c, hc, hm⟩ := List.exists_of_findSome?_eq_some h
  have hcB : c < B := List.mem_range.mp hc
  split at hm
  · rename_i hd
    simp only [Option.some.injEq, Prod.mk.injEq] at hm
    obtain ⟨rfl, rfl⟩ := hm
    exact ⟨hcB, by simpa using hd⟩
  · split at hm
    · rename_i _ hd
      simp only [Option.some.injEq, Prod.mk.injEq] at hm
      obtain ⟨rfl, rfl⟩ := hm
      exact ⟨hcB, by simpa using hd⟩
    · cases hm

/-! ### non-vacuity -/
example : Quasi.starOf 5 [0, 0, -1, 0, 0] = some (2, true) := by decide
example : Quasi.edgesAreStar 3 [[0, 0, 0], [1, 0, 0], [1, 1, 0]] [(0, 1), (2, 1)] = true := by decide
example : Quasi.reduce [(4, [1, 1, 1, 1, 1])] [3, 2, 2, 2, 2] = Quasi.reduce [(4, [1, 1, 1, 1, 1])] [1, 0, 0, 0, 0] := by decide

section Angles
open Real

/-! ### the star vectors of koala: `(cos a_b, sin a_b)`, with or without angle disorder -/

variable {β : Type} [Fintype β] [DecidableEq β]

/-- `np.array([np.sum(index * np.cos(angles)), np.sum(index * np.sin(angles))])` is `position` for these star vectors -/
noncomputable def starOfAngles (ang : β → ℝ) (b : β) : ℝ × ℝ := (Real.cos (ang b), Real.sin (ang b))

def sqNorm (v : ℝ × ℝ) : ℝ := v.1 * v.1 + v.2 * v.2
def dot (v w : ℝ × ℝ) : ℝ := v.1 * w.1 + v.2 * w.2

/-- **all edges have the same length** (before the final rescaling into the unit square, which is one common factor): the
    images of two faces adjacent across a line of bundle `b` are at distance exactly 1, for every choice of angles -/
theorem edge_length_one (ang : β → ℝ) (idx : β → ℤ) (b : β) :
    sqNorm (position (starOfAngles ang) (idx + (Pi.single b (1 : ℤ) : β → ℤ)) - position (starOfAngles ang) idx) = 1 := by
  rw [edge_is_star_vector]
  simp only [sqNorm, starOfAngles]
  have := Real.cos_sq_add_sin_sq (ang b)
  nlinarith [this]

omit [Fintype β] [DecidableEq β] in
/-- the two sides of the rhombus at a grid vertex of bundles `b₁`, `b₂` enclose the angle `a_{b₁} − a_{b₂}` -/
theorem rhombus_angle (ang : β → ℝ) (b₁ b₂ : β) :
    dot (starOfAngles ang b₁) (starOfAngles ang b₂) = Real.cos (ang b₁ - ang b₂) := by
  simp only [dot, starOfAngles, Real.cos_sub]

/-- **five bundles without angle disorder: only the two Penrose rhombi**.  The sides at a grid vertex of two different
    bundles enclose 72° or 144° (cosine `cos(2π/5)` or `cos(4π/5)`), i.e. the rhombi are the 72°/108° and the 36°/144° one. -/
theorem penrose_rhombi (b₁ b₂ : Fin 5) (hne : b₁ ≠ b₂) :
    dot (starOfAngles (fun b : Fin 5 => 2 * π * (b : ℕ) / 5) b₁) (starOfAngles (fun b : Fin 5 => 2 * π * (b : ℕ) / 5) b₂) = Real.cos (2 * π / 5) ∨
    dot (starOfAngles (fun b : Fin 5 => 2 * π * (b : ℕ) / 5) b₁) (starOfAngles (fun b : Fin 5 => 2 * π * (b : ℕ) / 5) b₂) = Real.cos (4 * π / 5) := by
  rw [rhombus_angle]
  have key : ∀ d : ℤ, (d = 1 ∨ d = -1 ∨ d = 4 ∨ d = -4) → Real.cos (2 * π * d / 5) = Real.cos (2 * π / 5) := by
    intro d hd
    rcases hd with h | h | h | h <;> subst h
    · norm_num
    · have : 2 * π * ((-1 : ℤ) : ℝ) / 5 = -(2 * π / 5) := by push_cast; ring
      rw [this, Real.cos_neg]
    · have : 2 * π * ((4 : ℤ) : ℝ) / 5 = 2 * π - 2 * π / 5 := by push_cast; ring
      rw [this, Real.cos_two_pi_sub]
    · have : 2 * π * ((-4 : ℤ) : ℝ) / 5 = -(2 * π - 2 * π / 5) := by push_cast; ring
      rw [this, Real.cos_neg, Real.cos_two_pi_sub]
  have key2 : ∀ d : ℤ, (d = 2 ∨ d = -2 ∨ d = 3 ∨ d = -3) → Real.cos (2 * π * d / 5) = Real.cos (4 * π / 5) := by
    intro d hd
    rcases hd with h | h | h | h <;> subst h
    · congr 1; push_cast; ring
    · have : 2 * π * ((-2 : ℤ) : ℝ) / 5 = -(4 * π / 5) := by push_cast; ring
      rw [this, Real.cos_neg]
    · have : 2 * π * ((3 : ℤ) : ℝ) / 5 = 2 * π - 4 * π / 5 := by push_cast; ring
      rw [this, Real.cos_two_pi_sub]
    · have : 2 * π * ((-3 : ℤ) : ℝ) / 5 = -(2 * π - 4 * π / 5) := by push_cast; ring
      rw [this, Real.cos_neg, Real.cos_two_pi_sub]
  have e : 2 * π * ((b₁ : ℕ) : ℝ) / 5 - 2 * π * ((b₂ : ℕ) : ℝ) / 5 = 2 * π * (((b₁ : ℕ) : ℤ) - ((b₂ : ℕ) : ℤ) : ℤ) / 5 := by
    push_cast; ring
  rw [e]
  fin_cases b₁ <;> fin_cases b₂ <;> first
    | exact absurd rfl hne
    | (left; apply key; decide)
    | (right; apply key2; decide)

end Angles

end C17
