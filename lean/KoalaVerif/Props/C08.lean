import KoalaVerif.Model.Ham
import Mathlib.Data.Matrix.Mul
import Mathlib.Algebra.BigOperators.Group.Finset.Basic
import Mathlib.Algebra.BigOperators.Ring.Finset
import Mathlib.LinearAlgebra.Matrix.Hermitian
import Mathlib.Analysis.SpecialFunctions.Trigonometric.Basic
import Mathlib.Tactic.Ring
import Mathlib.Tactic.Abel
import Mathlib.LinearAlgebra.Matrix.Charpoly.Basic
import Mathlib.LinearAlgebra.Matrix.NonsingularInverse
import Mathlib.Analysis.Fourier.FiniteAbelian.PontryaginDuality
import Mathlib.Data.Matrix.Block

/-! # C08 — the Bloch Hamiltonian of a unit cell reproduces the spectrum of the tiled system

The algebraic heart is `intertwine`: for *any* commutative ring, any finite abelian group `G` of cells, any
multiplicative `φ : G → R` and any list of bonds, the real-space matrix of the tiling maps the plane wave
`φ ⊗ v` to `φ ⊗ (bloch φ · v)`.  With `G = ℤ/n_x × ℤ/n_y` and `φ` running over its `n_x·n_y` characters (the
allowed momenta) this is "the union of the Bloch spectra is the spectrum of the tiled Hamiltonian"; it pins the sign
and direction of the crossing vector, the placement of the conjugate and the accumulation over parallel bonds.
`charpoly_tiled_eq_prod_bloch` (end of file) closes the argument: the plane waves of all characters form an invertible matrix
(character orthogonality), so the characteristic polynomial of the tiled Hamiltonian *is* the product of the Bloch ones —
equality of spectra with multiplicities, not only the inclusion the eigenvector lifting gives. -/

namespace C08
open Matrix

variable {R : Type} [CommRing R] {G : Type} [AddCommGroup G] [Fintype G] [DecidableEq G]
variable {n : Type} [Fintype n] [DecidableEq n]

/-- a bond of the unit cell: from site `j` (this cell) to site `k` in the cell at offset `δ` (the crossing);
    `w` is written at `[k, j]`, `w'` at `[j, k]` -/
structure Bond (n G R : Type) where
  j : n
  k : n
  δ : G
  w : R
  w' : R

/-- real-space matrix of the tiling over the finite group of cells `G`, one bond -/
def tiled1 (b : Bond n G R) : Matrix (G × n) (G × n) R := fun r c =>
  (if r.1 = c.1 + b.δ ∧ r.2 = b.k ∧ c.2 = b.j then b.w else 0) +
  (if c.1 = r.1 + b.δ ∧ c.2 = b.k ∧ r.2 = b.j then b.w' else 0)

/-- Bloch matrix at the character `φ`, one bond (koala: `φ(−δ) = exp(i k·δ)`) -/
def bloch1 (φ : G → R) (b : Bond n G R) : Matrix n n R := fun r c =>
  (if r = b.k ∧ c = b.j then b.w * φ (-b.δ) else 0) +
  (if r = b.j ∧ c = b.k then b.w' * φ b.δ else 0)

/-- parallel bonds add up (both in the tiling and in the Bloch matrix) -/
def tiled (bs : List (Bond n G R)) : Matrix (G × n) (G × n) R := (bs.map tiled1).sum
def bloch (φ : G → R) (bs : List (Bond n G R)) : Matrix n n R := (bs.map (bloch1 φ)).sum

def planeWave (φ : G → R) (v : n → R) : G × n → R := fun p => φ p.1 * v p.2

theorem intertwine1 (φ : G → R) (hφ : ∀ a b, φ (a + b) = φ a * φ b) (b : Bond n G R) (v : n → R) :
    tiled1 b *ᵥ planeWave φ v = fun p => φ p.1 * (bloch1 φ b *ᵥ v) p.2 := by
  funext p
  obtain ⟨g, s⟩ := p
  simp only [mulVec, dotProduct, tiled1, bloch1, planeWave, Fintype.sum_prod_type, add_mul,
    Finset.sum_add_distrib, Finset.mul_sum, mul_add]
  congr 1
  · have e1 : ∀ g' c, (if g = g' + b.δ ∧ s = b.k ∧ c = b.j then b.w else 0) * (φ g' * v c)
        = if g' = g - b.δ then (if c = b.j then
            (if s = b.k then b.w * (φ (g - b.δ) * v b.j) else 0) else 0) else 0 := by
      intro g' c
      by_cases h1 : g' = g - b.δ
      · subst h1
        by_cases h2 : c = b.j <;> by_cases h3 : s = b.k <;> simp [h2, h3]
      · have : ¬ g = g' + b.δ := fun h => h1 (by rw [h]; abel)
        simp [h1, this]
    have e2 : ∀ c, φ g * ((if s = b.k ∧ c = b.j then b.w * φ (-b.δ) else 0) * v c)
        = if c = b.j then (if s = b.k then b.w * (φ (g - b.δ) * v b.j) else 0) else 0 := by
      intro c
      by_cases h2 : c = b.j <;> by_cases h3 : s = b.k <;> simp [h2, h3, sub_eq_add_neg, hφ]
      ring
    simp_rw [e1, e2]
    rw [Finset.sum_comm]
    simp_rw [Finset.sum_ite_eq', Finset.mem_univ, if_true]
    rw [Finset.sum_ite_eq']; simp
  · have e1 : ∀ g' c, (if g' = g + b.δ ∧ c = b.k ∧ s = b.j then b.w' else 0) * (φ g' * v c)
        = if g' = g + b.δ then (if c = b.k then
            (if s = b.j then b.w' * (φ (g + b.δ) * v b.k) else 0) else 0) else 0 := by
      intro g' c
      by_cases h1 : g' = g + b.δ
      · subst h1
        by_cases h2 : c = b.k <;> by_cases h3 : s = b.j <;> simp [h2, h3]
      · simp [h1]
    have e2 : ∀ c, φ g * ((if s = b.j ∧ c = b.k then b.w' * φ b.δ else 0) * v c)
        = if c = b.k then (if s = b.j then b.w' * (φ (g + b.δ) * v b.k) else 0) else 0 := by
      intro c
      by_cases h2 : c = b.k <;> by_cases h3 : s = b.j <;> simp [h2, h3, hφ]
      ring
    simp_rw [e1, e2]
    rw [Finset.sum_comm]
    simp_rw [Finset.sum_ite_eq', Finset.mem_univ, if_true]
    rw [Finset.sum_ite_eq']; simp

/-- **C08.2 plane waves intertwine the tiled Hamiltonian with the Bloch Hamiltonian** -/
theorem intertwine (φ : G → R) (hφ : ∀ a b, φ (a + b) = φ a * φ b) (bs : List (Bond n G R)) (v : n → R) :
    tiled bs *ᵥ planeWave φ v = fun p => φ p.1 * (bloch φ bs *ᵥ v) p.2 := by
  induction bs with
  | nil => funext p; simp [tiled, bloch]
  | cons b bs ih =>
    have h1 := intertwine1 φ hφ b v
    simp only [tiled, bloch, List.map_cons, List.sum_cons] at ih ⊢
    rw [add_mulVec, add_mulVec, h1, ih]
    funext p; simp [mul_add]

/-- consequence: an eigenvector `v` of the Bloch matrix gives the eigenvector `φ ⊗ v` of the tiled matrix with the
    same eigenvalue -/
theorem eigen_lifts (φ : G → R) (hφ : ∀ a b, φ (a + b) = φ a * φ b) (bs : List (Bond n G R)) (v : n → R) (μ : R)
    (hv : bloch φ bs *ᵥ v = μ • v) : tiled bs *ᵥ planeWave φ v = μ • planeWave φ v := by
  rw [intertwine φ hφ bs v, hv]
  funext p
  simp only [planeWave, Pi.smul_apply, smul_eq_mul]
  ring

/-- **C08.1 at the trivial character (k = 0) the Bloch matrix is the real-space matrix of the cell** -/
theorem bloch_trivial (b : Bond n G R) (r c : n) :
    bloch1 (fun _ => (1 : R)) b r c = (if r = b.k ∧ c = b.j then b.w else 0) + (if r = b.j ∧ c = b.k then b.w' else 0) := by
  simp [bloch1]

/-- **C08.1 Hermitian**: with a unitary character (`φ(−δ) = conj φ(δ)`) and conjugate weights the Bloch matrix of
    every bond — hence of every list of bonds — is Hermitian -/
theorem bloch1_hermitian (φ : G → ℂ) (hu : ∀ g, φ (-g) = star (φ g)) (b : Bond n G ℂ) (hw : b.w' = star b.w) :
    (bloch1 φ b).IsHermitian := by
  ext r c
  simp only [conjTranspose_apply, bloch1]
  have c1 : (c = b.k ∧ r = b.j) ↔ (r = b.j ∧ c = b.k) := and_comm
  have c2 : (c = b.j ∧ r = b.k) ↔ (r = b.k ∧ c = b.j) := and_comm
  rw [star_add, add_comm]
  congr 1
  · simp only [c2]
    split_ifs
    · rw [star_mul', hw, star_star, ← hu]
    · simp
  · simp only [c1]
    split_ifs
    · rw [star_mul', hu, star_star, hw]
    · simp

/-- sums of Hermitian matrices are Hermitian: the whole Bloch Hamiltonian is Hermitian -/
theorem bloch_hermitian (φ : G → ℂ) (hu : ∀ g, φ (-g) = star (φ g)) (bs : List (Bond n G ℂ)) (hw : ∀ b ∈ bs, b.w' = star b.w) :
    (bloch φ bs).IsHermitian := by
  unfold bloch
  induction bs with
  | nil => simp [Matrix.IsHermitian]
  | cons b bs ih =>
    simp only [List.map_cons, List.sum_cons]
    exact (bloch1_hermitian φ hu b (hw b (by simp))).add (ih (fun b' hb' => hw b' (by simp [hb'])))

/-! ### the characters `χ_k(δ) = exp(i k·δ)` of koala: multiplicative, unitary, 2π-periodic, trivial on the tiling at allowed momenta -/

open Complex in
/-- `exp(1j * np.sum(cross * k))` -/
noncomputable def chi (k : ℝ × ℝ) (δ : ℤ × ℤ) : ℂ := Complex.exp (Complex.I * ((k.1 : ℂ) * (δ.1 : ℂ) + (k.2 : ℂ) * (δ.2 : ℂ)))

theorem chi_add (k : ℝ × ℝ) (δ δ' : ℤ × ℤ) : chi k (δ + δ') = chi k δ * chi k δ' := by
  unfold chi
  rw [← Complex.exp_add]
  congr 1
  simp only [Prod.fst_add, Prod.snd_add, Int.cast_add]
  ring

theorem chi_zero_momentum (δ : ℤ × ℤ) : chi (0, 0) δ = 1 := by simp [chi]

/-- **2π-periodic in each momentum component** -/
theorem chi_periodic_x (k : ℝ × ℝ) (δ : ℤ × ℤ) : chi (k.1 + 2 * Real.pi, k.2) δ = chi k δ := by
  unfold chi
  have : Complex.I * (((k.1 + 2 * Real.pi : ℝ) : ℂ) * (δ.1 : ℂ) + (k.2 : ℂ) * (δ.2 : ℂ))
      = Complex.I * ((k.1 : ℂ) * (δ.1 : ℂ) + (k.2 : ℂ) * (δ.2 : ℂ)) + (δ.1 : ℂ) * (2 * Real.pi * Complex.I) := by
    push_cast; ring
  rw [this, Complex.exp_add, Complex.exp_int_mul_two_pi_mul_I, mul_one]

theorem chi_periodic_y (k : ℝ × ℝ) (δ : ℤ × ℤ) : chi (k.1, k.2 + 2 * Real.pi) δ = chi k δ := by
  unfold chi
  have : Complex.I * ((k.1 : ℂ) * (δ.1 : ℂ) + ((k.2 + 2 * Real.pi : ℝ) : ℂ) * (δ.2 : ℂ))
      = Complex.I * ((k.1 : ℂ) * (δ.1 : ℂ) + (k.2 : ℂ) * (δ.2 : ℂ)) + (δ.2 : ℂ) * (2 * Real.pi * Complex.I) := by
    push_cast; ring
  rw [this, Complex.exp_add, Complex.exp_int_mul_two_pi_mul_I, mul_one]

/-- at the allowed momenta `k = 2π(m_x/n_x, m_y/n_y)` the character is trivial on whole-system translations, so it
    descends to the finite group of cells `ℤ/n_x × ℤ/n_y` of the tiling -/
theorem chi_allowed (nx ny : ℕ) (hx : 0 < nx) (hy : 0 < ny) (mx my a b : ℤ) :
    chi (2 * Real.pi * mx / nx, 2 * Real.pi * my / ny) (nx * a, ny * b) = 1 := by
  unfold chi
  have hx' : (nx : ℂ) ≠ 0 := by exact_mod_cast hx.ne'
  have hy' : (ny : ℂ) ≠ 0 := by exact_mod_cast hy.ne'
  have : Complex.I * (((2 * Real.pi * mx / nx : ℝ) : ℂ) * (((nx : ℤ) * a : ℤ) : ℂ) + ((2 * Real.pi * my / ny : ℝ) : ℂ) * (((ny : ℤ) * b : ℤ) : ℂ))
      = ((mx * a + my * b : ℤ) : ℂ) * (2 * Real.pi * Complex.I) := by
    push_cast
    field_simp
  rw [this, Complex.exp_int_mul_two_pi_mul_I]

end C08

/-! ### the whole spectrum: `charpoly (tiled) = ∏_ψ charpoly (bloch ψ)` -/

namespace C08
open Matrix Polynomial

variable {K : Type} [Field K] {G : Type} [AddCommGroup G] [Fintype G] [DecidableEq G]
variable {n : Type} [Fintype n] [DecidableEq n]

/-- characteristic polynomial of a block-diagonal matrix -/
theorem charpoly_blockDiagonal {o : Type} [Fintype o] [DecidableEq o] (M : o → Matrix n n K) :
    (blockDiagonal M).charpoly = ∏ k, (M k).charpoly := by
  unfold Matrix.charpoly
  rw [← det_blockDiagonal]
  congr 1
  ext ⟨i, k⟩ ⟨j, k'⟩
  simp only [charmatrix_apply, blockDiagonal_apply', diagonal_apply, Prod.mk.injEq]
  by_cases hk : k = k'
  · subst hk; simp
  · simp [hk]

/-- the plane waves `φ_i ⊗ e_s` as the columns of a matrix (`i` runs over the characters, `s` over the sites of the cell) -/
def waves (φ : G → G → K) : Matrix (G × n) (n × G) K := fun p q => if p.2 = q.1 then φ q.2 p.1 else 0

def wavesInv (V : Matrix G G K) : Matrix (n × G) (G × n) K := fun q p => if p.2 = q.1 then V q.2 p.1 else 0

theorem tiled_mul_waves (φ : G → G → K) (hφ : ∀ i a b, φ i (a + b) = φ i a * φ i b) (bs : List (Bond n G K)) :
    tiled bs * waves φ = waves φ * blockDiagonal (fun i => bloch (φ i) bs) := by
  ext p ⟨s', i⟩
  have h := congrFun (intertwine (φ i) (hφ i) bs (Pi.single s' 1)) p
  have lhs : (tiled bs * waves φ : Matrix (G × n) (n × G) K) p (s', i) = (tiled bs *ᵥ planeWave (φ i) (Pi.single s' 1)) p := by
    simp only [mul_apply, mulVec, dotProduct, waves, planeWave]
    refine Finset.sum_congr rfl fun r _ => ?_
    by_cases hr : r.2 = s'
    · simp [hr]
    · simp [hr, Pi.single_apply]
  rw [lhs, h]
  simp only [mul_apply, waves, blockDiagonal_apply, Fintype.sum_prod_type]
  rw [Finset.sum_eq_single p.2]
  · rw [Finset.sum_eq_single i]
    · simp [mulVec, dotProduct, Pi.single_apply]
    · intro g _ hg; simp [hg]
    · simp
  · intro s _ hs
    apply Finset.sum_eq_zero
    intro g _
    simp [Ne.symm hs]
  · simp

theorem waves_mul_inv (φ : G → G → K) (V : Matrix G G K) (hUV : (Matrix.of fun g i => φ i g) * V = 1) :
    (waves φ : Matrix (G × n) (n × G) K) * wavesInv V = (1 : Matrix (G × n) (G × n) K) := by
  ext p q
  simp only [mul_apply, waves, wavesInv, Fintype.sum_prod_type]
  rw [Finset.sum_eq_single p.2]
  · have := congrFun (congrFun hUV p.1) q.1
    simp only [mul_apply, of_apply] at this
    by_cases h2 : q.2 = p.2
    · simp only [h2, if_true]
      rw [this]
      obtain ⟨p1, p2⟩ := p; obtain ⟨q1, q2⟩ := q
      simp only at h2; subst h2
      simp [one_apply, Prod.mk.injEq]
    · simp only [h2, if_false, if_true, mul_zero, Finset.sum_const_zero]
      rw [one_apply, if_neg]
      intro h; exact h2 (by rw [h])
  · intro s _ hs
    apply Finset.sum_eq_zero; intro g _; simp [Ne.symm hs]
  · simp

theorem inv_mul_waves (φ : G → G → K) (V : Matrix G G K) (hVU : V * (Matrix.of fun g i => φ i g) = 1) :
    (wavesInv V : Matrix (n × G) (G × n) K) * waves φ = (1 : Matrix (n × G) (n × G) K) := by
  ext q q'
  simp only [mul_apply, waves, wavesInv, Fintype.sum_prod_type]
  rw [Finset.sum_comm]
  rw [Finset.sum_eq_single q.1]
  · have := congrFun (congrFun hVU q.2) q'.2
    simp only [mul_apply, of_apply] at this
    by_cases h1 : q.1 = q'.1
    · simp only [h1, if_true]
      rw [this]
      obtain ⟨a, b⟩ := q; obtain ⟨a', b'⟩ := q'
      simp only at h1; subst h1
      simp [one_apply, Prod.mk.injEq]
    · simp only [h1, if_false, if_true, mul_zero, Finset.sum_const_zero]
      rw [one_apply, if_neg]
      intro h; exact h1 (by rw [h])
  · intro s _ hs
    apply Finset.sum_eq_zero; intro g _; simp [hs]
  · simp

/-- **C08, the whole spectrum**: if the plane-wave matrix of the characters `φ_i` is invertible, the characteristic polynomial
    of the tiled Hamiltonian is the product of the characteristic polynomials of the Bloch Hamiltonians -/
theorem charpoly_tiled_of_invertible (φ : G → G → K) (hφ : ∀ i a b, φ i (a + b) = φ i a * φ i b) (V : Matrix G G K)
    (hUV : (Matrix.of fun g i => φ i g) * V = 1) (bs : List (Bond n G K)) :
    (tiled bs).charpoly = ∏ i, (bloch (φ i) bs).charpoly := by
  have hVU : V * (Matrix.of fun g i => φ i g) = 1 := mul_eq_one_comm.mp hUV
  have h1 := tiled_mul_waves (n := n) φ hφ bs
  have h2 := waves_mul_inv (n := n) φ V hUV
  have h3 := inv_mul_waves (n := n) φ V hVU
  have e : tiled bs = waves φ * (blockDiagonal (fun i => bloch (φ i) bs) * wavesInv V) := by
    rw [← Matrix.mul_assoc, ← h1, Matrix.mul_assoc, h2, Matrix.mul_one]
  rw [e, charpoly_mul_comm_of_le _ _ (by simp [Fintype.card_prod, Nat.mul_comm]), Matrix.mul_assoc, h3, Matrix.mul_one,
    charpoly_blockDiagonal]
  simp [Fintype.card_prod, Nat.mul_comm]

end C08

namespace C08
open Matrix Polynomial

variable {G : Type} [AddCommGroup G] [Fintype G] [DecidableEq G]
variable {n : Type} [Fintype n] [DecidableEq n]

/-- **C08 — the union of the Bloch spectra is the spectrum of the tiled Hamiltonian, with multiplicities**: for every finite
    abelian group `G` of cells (for koala `ℤ/n_x × ℤ/n_y`) and every list of bonds with complex weights, the characteristic
    polynomial of the real-space matrix of the tiling is the product, over all characters `ψ` of `G` (the allowed momenta),
    of the characteristic polynomials of the Bloch matrices. -/
theorem charpoly_tiled_eq_prod_bloch (bs : List (Bond n G ℂ)) :
    (tiled bs).charpoly = ∏ ψ : AddChar G ℂ, (bloch (fun g => ψ g) bs).charpoly := by
  classical
  let e : G ≃ AddChar G ℂ := Fintype.equivOfCardEq (by rw [AddChar.card_eq])
  have hne : (Fintype.card G : ℂ) ≠ 0 := by exact_mod_cast Fintype.card_ne_zero
  have h := charpoly_tiled_of_invertible (n := n) (fun i g => e i g) (fun i a b => (e i).map_add_eq_mul a b)
    (Matrix.of fun i g => (Fintype.card G : ℂ)⁻¹ * e i (-g)) ?_ bs
  · rw [h]
    exact Equiv.prod_comp e (fun ψ : AddChar G ℂ => (bloch (fun g => ψ g) bs).charpoly)
  · ext g g'
    simp only [mul_apply, of_apply]
    have : ∀ i, e i g * ((Fintype.card G : ℂ)⁻¹ * e i (-g')) = (Fintype.card G : ℂ)⁻¹ * e i (g - g') := by
      intro i; rw [sub_eq_add_neg, (e i).map_add_eq_mul]; ring
    simp_rw [this]
    rw [← Finset.mul_sum, Equiv.sum_comp e (fun ψ : AddChar G ℂ => ψ (g - g')), AddChar.sum_apply_eq_ite]
    by_cases hg : g = g'
    · subst hg; simp [hne]
    · have : g - g' ≠ 0 := sub_ne_zero.mpr hg
      simp [this, one_apply, hg]

end C08

namespace C08
open Matrix Polynomial

/-! ### the cells of koala's tiling: `ℤ/n_x × ℤ/n_y`, characters = allowed momenta -/

variable {n : Type} [Fintype n] [DecidableEq n]

/-- the plane wave of momentum `k = 2π (m_x/n_x, m_y/n_y)` on the cell group: `g ↦ exp(2πi (m_x g_x/n_x + m_y g_y/n_y))` -/
noncomputable def momentumChar (nx ny : ℕ) [NeZero nx] [NeZero ny] (m g : ZMod nx × ZMod ny) : ℂ :=
  ((AddChar.zmod nx m.1 g.1 : Circle) : ℂ) * ((AddChar.zmod ny m.2 g.2 : Circle) : ℂ)

theorem zmod_symm (N : ℕ) [NeZero N] (x y : ZMod N) : AddChar.zmod N x y = AddChar.zmod N y x := by
  obtain ⟨a, rfl⟩ := ZMod.intCast_surjective x
  obtain ⟨b, rfl⟩ := ZMod.intCast_surjective y
  rw [AddChar.zmod_intCast, AddChar.zmod_intCast, mul_comm (a : ℝ)]

/-- orthogonality on `ℤ/N`: summing the character values over all momenta -/
theorem sum_zmod (N : ℕ) [NeZero N] (y : ZMod N) :
    ∑ x : ZMod N, ((AddChar.zmod N x y : Circle) : ℂ) = if y = 0 then (N : ℂ) else 0 := by
  classical
  have h1 : ∀ x : ZMod N, ((AddChar.zmod N x y : Circle) : ℂ) = AddChar.circleEquivComplex (AddChar.zmod N y) x := by
    intro x; rw [zmod_symm]; rfl
  simp_rw [h1]
  rw [AddChar.sum_eq_ite]
  have : (AddChar.circleEquivComplex (AddChar.zmod N y) = 0) ↔ y = 0 := by
    rw [← map_zero (AddChar.circleEquivComplex (α := ZMod N)), AddChar.circleEquivComplex.injective.eq_iff]
    have h0 : (0 : AddChar (ZMod N) Circle) = AddChar.zmod N 0 := by
      rw [AddChar.zmod_zero]; rfl
    rw [h0]
    exact AddChar.zmod_inj
  simp only [this, ZMod.card]

theorem momentumChar_add (nx ny : ℕ) [NeZero nx] [NeZero ny] (m a b : ZMod nx × ZMod ny) :
    momentumChar nx ny m (a + b) = momentumChar nx ny m a * momentumChar nx ny m b := by
  unfold momentumChar
  simp only [Prod.fst_add, Prod.snd_add, AddChar.map_add_eq_mul, Circle.coe_mul]
  ring

/-- **C08 for koala's tiling**: the cells of an `n_x × n_y` tiling form `ℤ/n_x × ℤ/n_y`; the characteristic polynomial of the
    tiled Hamiltonian is the product over the `n_x·n_y` allowed momenta `k = 2π(m_x/n_x, m_y/n_y)` of the characteristic
    polynomials of the Bloch Hamiltonians `H(k)` — the union of the Bloch spectra over the allowed momenta is the spectrum of
    the tiled system, with multiplicities. -/
theorem charpoly_tiled_eq_prod_momenta (nx ny : ℕ) [NeZero nx] [NeZero ny] (bs : List (Bond n (ZMod nx × ZMod ny) ℂ)) :
    (tiled bs).charpoly = ∏ m : ZMod nx × ZMod ny, (bloch (momentumChar nx ny m) bs).charpoly := by
  have hx : (nx : ℂ) ≠ 0 := by exact_mod_cast NeZero.ne nx
  have hy : (ny : ℂ) ≠ 0 := by exact_mod_cast NeZero.ne ny
  refine charpoly_tiled_of_invertible (momentumChar nx ny) (momentumChar_add nx ny)
    (Matrix.of fun m g => ((nx : ℂ) * (ny : ℂ))⁻¹ * momentumChar nx ny m (-g)) ?_ bs
  ext g g'
  simp only [mul_apply, of_apply]
  have h1 : ∀ m, momentumChar nx ny m g * (((nx : ℂ) * (ny : ℂ))⁻¹ * momentumChar nx ny m (-g'))
      = ((nx : ℂ) * (ny : ℂ))⁻¹ * (((AddChar.zmod nx m.1 (g - g').1 : Circle) : ℂ) * ((AddChar.zmod ny m.2 (g - g').2 : Circle) : ℂ)) := by
    intro m
    have := momentumChar_add nx ny m g (-g')
    rw [← sub_eq_add_neg] at this
    calc momentumChar nx ny m g * (((nx : ℂ) * (ny : ℂ))⁻¹ * momentumChar nx ny m (-g'))
        = ((nx : ℂ) * (ny : ℂ))⁻¹ * (momentumChar nx ny m g * momentumChar nx ny m (-g')) := by ring
      _ = ((nx : ℂ) * (ny : ℂ))⁻¹ * momentumChar nx ny m (g - g') := by rw [this]
      _ = _ := rfl
  simp_rw [h1]
  rw [← Finset.mul_sum, Fintype.sum_prod_type]
  simp_rw [← Finset.mul_sum]
  rw [← Finset.sum_mul, sum_zmod, sum_zmod]
  by_cases hg : g = g'
  · subst hg
    simp only [sub_self, Prod.fst_zero, Prod.snd_zero, if_true, one_apply_eq]
    field_simp
  · rw [one_apply_ne hg]
    have : ¬ ((g - g').1 = 0 ∧ (g - g').2 = 0) := by
      intro h
      apply hg
      have : g - g' = 0 := Prod.ext h.1 h.2
      exact sub_eq_zero.mp this
    by_cases h1' : (g - g').1 = 0
    · have h2' : (g - g').2 ≠ 0 := fun h => this ⟨h1', h⟩
      simp only [h2', if_false, mul_zero, zero_mul]
    · simp only [h1', if_false, mul_zero, zero_mul]

/-- the characters of the cell group are koala's phases `exp(i k·δ)` at the allowed momenta -/
theorem momentumChar_eq_chi (nx ny : ℕ) [NeZero nx] [NeZero ny] (mx my a b : ℤ) :
    momentumChar nx ny ((mx : ZMod nx), (my : ZMod ny)) ((a : ZMod nx), (b : ZMod ny))
      = chi (2 * Real.pi * mx / nx, 2 * Real.pi * my / ny) (a, b) := by
  unfold momentumChar chi
  simp only [AddChar.zmod_intCast, Circle.coe_exp]
  rw [← Complex.exp_add]
  congr 1
  push_cast
  ring

end C08
