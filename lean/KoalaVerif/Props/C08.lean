import KoalaVerif.Model.Ham
import Mathlib.Data.Matrix.Mul
import Mathlib.Algebra.BigOperators.Group.Finset.Basic
import Mathlib.Algebra.BigOperators.Ring.Finset
import Mathlib.LinearAlgebra.Matrix.Hermitian
import Mathlib.Analysis.SpecialFunctions.Trigonometric.Basic
import Mathlib.Tactic.Ring
import Mathlib.Tactic.Abel

/-! # C08 — the Bloch Hamiltonian of a unit cell reproduces the spectrum of the tiled system

The algebraic heart is `intertwine`: for *any* commutative ring, any finite abelian group `G` of cells, any
multiplicative `φ : G → R` and any list of bonds, the real-space matrix of the tiling maps the plane wave
`φ ⊗ v` to `φ ⊗ (bloch φ · v)`.  With `G = ℤ/n_x × ℤ/n_y` and `φ` running over its `n_x·n_y` characters (the
allowed momenta) this is "the union of the Bloch spectra is the spectrum of the tiled Hamiltonian"; it pins the sign
and direction of the crossing vector, the placement of the conjugate and the accumulation over parallel bonds. -/

namespace C08
open Matrix

variable {R : Type} [CommRing R] {G : Type} [AddCommGroup G] [Fintype G] [DecidableEq G]
variable {n : Type} [Fintype n] [DecidableEq n]

/-- a bond of the unit cell: from site `j` (this cell) to site `k` in the cell at offset `δ` (the crossing);
    `w` is written at `[k, j]`, `w'` at `[j, k]` -/
structure Bond (n G R : Type) where
  j : n
  k : n
  δ : G
  w : R
  w' : R

/-- real-space matrix of the tiling over the finite group of cells `G`, one bond -/
def tiled1 (b : Bond n G R) : Matrix (G × n) (G × n) R := fun r c =>
  (if r.1 = c.1 + b.δ ∧ r.2 = b.k ∧ c.2 = b.j then b.w else 0) +
  (if c.1 = r.1 + b.δ ∧ c.2 = b.k ∧ r.2 = b.j then b.w' else 0)

/-- Bloch matrix at the character `φ`, one bond (koala: `φ(−δ) = exp(i k·δ)`) -/
def bloch1 (φ : G → R) (b : Bond n G R) : Matrix n n R := fun r c =>
  (if r = b.k ∧ c = b.j then b.w * φ (-b.δ) else 0) +
  (if r = b.j ∧ c = b.k then b.w' * φ b.δ else 0)

/-- parallel bonds add up (both in the tiling and in the Bloch matrix) -/
def tiled (bs : List (Bond n G R)) : Matrix (G × n) (G × n) R := (bs.map tiled1).sum
def bloch (φ : G → R) (bs : List (Bond n G R)) : Matrix n n R := (bs.map (bloch1 φ)).sum

def planeWave (φ : G → R) (v : n → R) : G × n → R := fun p => φ p.1 * v p.2

theorem intertwine1 (φ : G → R) (hφ : ∀ a b, φ (a + b) = φ a * φ b) (b : Bond n G R) (v : n → R) :
    tiled1 b *ᵥ planeWave φ v = fun p => φ p.1 * (bloch1 φ b *ᵥ v) p.2 := by
  funext p
  obtain ⟨g, s⟩ := p
  simp only [mulVec, dotProduct, tiled1, bloch1, planeWave, Fintype.sum_prod_type, add_mul,
    Finset.sum_add_distrib, Finset.mul_sum, mul_add]
  congr 1
  · have e1 : ∀ g' c, (if g = g' + b.δ ∧ s = b.k ∧ c = b.j then b.w else 0) * (φ g' * v c)
        = if g' = g - b.δ then (if c = b.j then
            (if s = b.k then b.w * (φ (g - b.δ) * v b.j) else 0) else 0) else 0 := by
      intro g' c
      by_cases h1 : g' = g - b.δ
      · subst h1
        by_cases h2 : c = b.j <;> by_cases h3 : s = b.k <;> simp [h2, h3]
      · have : ¬ g = g' + b.δ := fun h => h1 (by rw [h]; abel)
        simp [h1, this]
    have e2 : ∀ c, φ g * ((if s = b.k ∧ c = b.j then b.w * φ (-b.δ) else 0) * v c)
        = if c = b.j then (if s = b.k then b.w * (φ (g - b.δ) * v b.j) else 0) else 0 := by
      intro c
      by_cases h2 : c = b.j <;> by_cases h3 : s = b.k <;> simp [h2, h3, sub_eq_add_neg, hφ]
      ring
    simp_rw [e1, e2]
    rw [Finset.sum_comm]
    simp_rw [Finset.sum_ite_eq', Finset.mem_univ, if_true]
    rw [Finset.sum_ite_eq']; simp
  · have e1 : ∀ g' c, (if g' = g + b.δ ∧ c = b.k ∧ s = b.j then b.w' else 0) * (φ g' * v c)
        = if g' = g + b.δ then (if c = b.k then
            (if s = b.j then b.w' * (φ (g + b.δ) * v b.k) else 0) else 0) else 0 := by
      intro g' c
      by_cases h1 : g' = g + b.δ
      · subst h1
        by_cases h2 : c = b.k <;> by_cases h3 : s = b.j <;> simp [h2, h3]
      · simp [h1]
    have e2 : ∀ c, φ g * ((if s = b.j ∧ c = b.k then b.w' * φ b.δ else 0) * v c)
        = if c = b.k then (if s = b.j then b.w' * (φ (g + b.δ) * v b.k) else 0) else 0 := by
      intro c
      by_cases h2 : c = b.k <;> by_cases h3 : s = b.j <;> simp [h2, h3, hφ]
      ring
    simp_rw [e1, e2]
    rw [Finset.sum_comm]
    simp_rw [Finset.sum_ite_eq', Finset.mem_univ, if_true]
    rw [Finset.sum_ite_eq']; simp

/-- **C08.2 plane waves intertwine the tiled Hamiltonian with the Bloch Hamiltonian** -/
theorem intertwine (φ : G → R) (hφ : ∀ a b, φ (a + b) = φ a * φ b) (bs : List (Bond n G R)) (v : n → R) :
    tiled bs *ᵥ planeWave φ v = fun p => φ p.1 * (bloch φ bs *ᵥ v) p.2 := by
  induction bs with
  | nil => funext p; simp [tiled, bloch]
  | cons b bs ih =>
    have h1 := intertwine1 φ hφ b v
    simp only [tiled, bloch, List.map_cons, List.sum_cons] at ih ⊢
    rw [add_mulVec, add_mulVec, h1, ih]
    funext p; simp [mul_add]

/-- consequence: an eigenvector `v` of the Bloch matrix gives the eigenvector `φ ⊗ v` of the tiled matrix with the
    same eigenvalue -/
theorem eigen_lifts (φ : G → R) (hφ : ∀ a b, φ (a + b) = φ a * φ b) (bs : List (Bond n G R)) (v : n → R) (μ : R)
    (hv : bloch φ bs *ᵥ v = μ • v) : tiled bs *ᵥ planeWave φ v = μ • planeWave φ v := by
  rw [intertwine φ hφ bs v, hv]
  funext p
  simp only [planeWave, Pi.smul_apply, smul_eq_mul]
  ring

/-- **C08.1 at the trivial character (k = 0) the Bloch matrix is the real-space matrix of the cell** -/
theorem bloch_trivial (b : Bond n G R) (r c : n) :
    bloch1 (fun _ => (1 : R)) b r c = (if r = b.k ∧ c = b.j then b.w else 0) + (if r = b.j ∧ c = b.k then b.w' else 0) := by
  simp [bloch1]

/-- **C08.1 Hermitian**: with a unitary character (`φ(−δ) = conj φ(δ)`) and conjugate weights the Bloch matrix of
    every bond — hence of every list of bonds — is Hermitian -/
theorem bloch1_hermitian (φ : G → ℂ) (hu : ∀ g, φ (-g) = star (φ g)) (b : Bond n G ℂ) (hw : b.w' = star b.w) :
    (bloch1 φ b).IsHermitian := by
  ext r c
  simp only [conjTranspose_apply, bloch1]
  have c1 : (c = b.k ∧ r = b.j) ↔ (r = b.j ∧ c = b.k) := and_comm
  have c2 : (c = b.j ∧ r = b.k) ↔ (r = b.k ∧ c = b.j) := and_comm
  rw [star_add, add_comm]
  congr 1
  · simp only [c2]
    split_ifs
    · rw [star_mul', hw, star_star, ← hu]
    · simp
  · simp only [c1]
    split_ifs
    · rw [star_mul', hu, star_star, hw]
    · simp

/-- sums of Hermitian matrices are Hermitian: the whole Bloch Hamiltonian is Hermitian -/
theorem bloch_hermitian (φ : G → ℂ) (hu : ∀ g, φ (-g) = star (φ g)) (bs : List (Bond n G ℂ)) (hw : ∀ b ∈ bs, b.w' = star b.w) :
    (bloch φ bs).IsHermitian := by
  unfold bloch
  induction bs with
  | nil => simp [Matrix.IsHermitian]
  | cons b bs ih =>
    simp only [List.map_cons, List.sum_cons]
    exact (bloch1_hermitian φ hu b (hw b (by simp))).add (ih (fun b' hb' => hw b' (by simp [hb'])))

/-! ### the characters `χ_k(δ) = exp(i k·δ)` of koala: multiplicative, unitary, 2π-periodic, trivial on the tiling at allowed momenta -/

open Complex in
/-- `exp(1j * np.sum(cross * k))` -/
noncomputable def chi (k : ℝ × ℝ) (δ : ℤ × ℤ) : ℂ := Complex.exp (Complex.I * ((k.1 : ℂ) * (δ.1 : ℂ) + (k.2 : ℂ) * (δ.2 : ℂ)))

theorem chi_add (k : ℝ × ℝ) (δ δ' : ℤ × ℤ) : chi k (δ + δ') = chi k δ * chi k δ' := by
  unfold chi
  rw [← Complex.exp_add]
  congr 1
  simp only [Prod.fst_add, Prod.snd_add, Int.cast_add]
  ring

theorem chi_zero_momentum (δ : ℤ × ℤ) : chi (0, 0) δ = 1 := by simp [chi]

/-- **2π-periodic in each momentum component** -/
theorem chi_periodic_x (k : ℝ × ℝ) (δ : ℤ × ℤ) : chi (k.1 + 2 * Real.pi, k.2) δ = chi k δ := by
  unfold chi
  have : Complex.I * (((k.1 + 2 * Real.pi : ℝ) : ℂ) * (δ.1 : ℂ) + (k.2 : ℂ) * (δ.2 : ℂ))
      = Complex.I * ((k.1 : ℂ) * (δ.1 : ℂ) + (k.2 : ℂ) * (δ.2 : ℂ)) + (δ.1 : ℂ) * (2 * Real.pi * Complex.I) := by
    push_cast; ring
  rw [this, Complex.exp_add, Complex.exp_int_mul_two_pi_mul_I, mul_one]

theorem chi_periodic_y (k : ℝ × ℝ) (δ : ℤ × ℤ) : chi (k.1, k.2 + 2 * Real.pi) δ = chi k δ := by
  unfold chi
  have : Complex.I * ((k.1 : ℂ) * (δ.1 : ℂ) + ((k.2 + 2 * Real.pi : ℝ) : ℂ) * (δ.2 : ℂ))
      = Complex.I * ((k.1 : ℂ) * (δ.1 : ℂ) + (k.2 : ℂ) * (δ.2 : ℂ)) + (δ.2 : ℂ) * (2 * Real.pi * Complex.I) := by
    push_cast; ring
  rw [this, Complex.exp_add, Complex.exp_int_mul_two_pi_mul_I, mul_one]

/-- at the allowed momenta `k = 2π(m_x/n_x, m_y/n_y)` the character is trivial on whole-system translations, so it
    descends to the finite group of cells `ℤ/n_x × ℤ/n_y` of the tiling -/
theorem chi_allowed (nx ny : ℕ) (hx : 0 < nx) (hy : 0 < ny) (mx my a b : ℤ) :
    chi (2 * Real.pi * mx / nx, 2 * Real.pi * my / ny) (nx * a, ny * b) = 1 := by
  unfold chi
  have hx' : (nx : ℂ) ≠ 0 := by exact_mod_cast hx.ne'
  have hy' : (ny : ℂ) ≠ 0 := by exact_mod_cast hy.ne'
  have : Complex.I * (((2 * Real.pi * mx / nx : ℝ) : ℂ) * (((nx : ℤ) * a : ℤ) : ℂ) + ((2 * Real.pi * my / ny : ℝ) : ℂ) * (((ny : ℤ) * b : ℤ) : ℂ))
      = ((mx * a + my * b : ℤ) : ℂ) * (2 * Real.pi * Complex.I) := by
    push_cast
    field_simp
  rw [this, Complex.exp_int_mul_two_pi_mul_I]

end C08
