import KoalaVerif.Props.C02
import KoalaVerif.Model.Cnf
import Mathlib.Data.List.Basic

/-! # C04 — SAT-based colourings and dimerisations are sound, complete and exact

All statements are about the executable encoders of `Model/Cnf.lean` (compared clause-for-clause with the
formula koala hands to the SAT solver on every run) and hold for every number of items, every number of
colours, every conflict list and every list of fixed colours. -/

namespace C04
open Cnf

/-! ### semantics of the building blocks -/

theorem sat_append (a : Nat → Bool) (f g : Formula) : sat a (f ++ g) = true ↔ sat a f = true ∧ sat a g = true := by
  simp [sat, List.all_append]

theorem sat_flatten (a : Nat → Bool) (fs : List Formula) : sat a fs.flatten = true ↔ ∀ f ∈ fs, sat a f = true := by
  induction fs with
  | nil => simp [sat]
  | cons f fs ih => simp [List.flatten_cons, sat_append, ih]

theorem sat_negPairs (a : Nat → Bool) (vs : List Nat) :
    sat a (negPairs vs) = true ↔ vs.Pairwise (fun x y => ¬ (a x = true ∧ a y = true)) := by
  induction vs with
  | nil => simp [negPairs, sat]
  | cons x xs ih =>
    simp only [negPairs, List.pairwise_cons, sat_append, ih]
    apply and_congr_left'
    simp only [sat, List.all_map, List.all_eq_true, Function.comp, clauseSat, List.any_cons, List.any_nil,
      Bool.or_false, Bool.or_eq_true, litTrue]
    constructor
    · intro h y hy ⟨h1, h2⟩; have := h y hy; simp [h1, h2] at this
    · intro h y hy
      have := h y hy
      cases hax : a x <;> cases hay : a y <;> simp_all

theorem sat_alo (a : Nat → Bool) (vs : List Nat) :
    clauseSat a (vs.map fun v => (v, true)) = true ↔ ∃ v ∈ vs, a v = true := by
  simp [clauseSat, litTrue, List.any_map, List.any_eq_true, Function.comp]

/-- pysat's pairwise `equals(bound=1)`: at least one variable of the list is true and no two are -/
theorem sat_exactlyOne (a : Nat → Bool) (vs : List Nat) :
    sat a (exactlyOne vs) = true ↔
      (∃ v ∈ vs, a v = true) ∧ vs.Pairwise (fun x y => ¬ (a x = true ∧ a y = true)) := by
  unfold exactlyOne
  have : sat a ((vs.map fun v => (v, true)) :: negPairs vs) = true ↔
      clauseSat a (vs.map fun v => (v, true)) = true ∧ sat a (negPairs vs) = true := by
    simp [sat]
  rw [this, sat_alo, sat_negPairs]

/-- the literal numbering is injective -/
theorem var_inj {k i j i' j' : Nat} (hj : j < k) (hj' : j' < k) (h : var k i j = var k i' j') :
    i = i' ∧ j = j' := by
  unfold var at h
  have h' : i * k + j = i' * k + j' := by omega
  have hi : i = i' := by
    have e1 : (i * k + j) / k = i := by
      rw [Nat.mul_comm, Nat.mul_add_div (by omega), Nat.div_eq_of_lt hj]; rfl
    have e2 : (i' * k + j') / k = i' := by
      rw [Nat.mul_comm, Nat.mul_add_div (by omega), Nat.div_eq_of_lt hj']; rfl
    rw [← e1, ← e2, h']
  subst hi
  exact ⟨rfl, by omega⟩

theorem var_pos (k i j : Nat) : 0 < var k i j := by unfold var; omega

theorem itemVars_nodup (k i : Nat) : (itemVars k i).Nodup := by
  unfold itemVars
  refine (List.nodup_map_iff_inj_on List.nodup_range).mpr ?_
  intro x hx y hy h
  exact (var_inj (List.mem_range.mp hx) (List.mem_range.mp hy) h).2

/-- exactly one colour variable of item `i` is true -/
def OneColour (k : Nat) (a : Nat → Bool) (i : Nat) : Prop :=
  ∃ j, j < k ∧ a (var k i j) = true ∧ ∀ j', j' < k → a (var k i j') = true → j' = j

theorem pairwise_map_range_iff (k : Nat) (P : Nat → Nat → Prop) (f : Nat → Nat) :
    ((List.range k).map f).Pairwise P ↔ ∀ x y, x < y → y < k → P (f x) (f y) := by
  rw [List.pairwise_map, List.pairwise_iff_getElem]
  constructor
  · intro h x y hxy hy
    have := h x y (by simpa using hxy.trans hy) (by simpa using hy) hxy
    simpa using this
  · intro h i j hi hj hij
    simp only [List.getElem_range]
    exact h i j hij (by simpa using hj)

theorem sat_item_iff (k : Nat) (a : Nat → Bool) (i : Nat) :
    sat a (exactlyOne (itemVars k i)) = true ↔ OneColour k a i := by
  rw [sat_exactlyOne]
  unfold itemVars OneColour
  rw [pairwise_map_range_iff]
  simp only [List.mem_map, List.mem_range]
  constructor
  · rintro ⟨⟨v, ⟨j, hj, rfl⟩, hv⟩, hp⟩
    refine ⟨j, hj, hv, ?_⟩
    intro j' hj' hv'
    by_contra hne
    rcases Nat.lt_or_gt_of_ne hne with h | h
    · exact hp j' j h hj ⟨hv', hv⟩
    · exact hp j j' h hj' ⟨hv, hv'⟩
  · rintro ⟨j, hj, hv, hu⟩
    refine ⟨⟨_, ⟨j, hj, rfl⟩, hv⟩, ?_⟩
    intro x y hxy hy ⟨hx', hy'⟩
    have := hu x (hxy.trans hy) hx'
    have := hu y hy hy'
    omega

theorem sat_conflict_iff (k : Nat) (a : Nat → Bool) (i i' : Nat) :
    sat a (conflict k i i') = true ↔ ∀ c, c < k → ¬ (a (var k i c) = true ∧ a (var k i' c) = true) := by
  unfold conflict sat
  simp only [List.all_map, List.all_eq_true, List.mem_range, Function.comp, clauseSat, List.any_cons,
    List.any_nil, Bool.or_false, litTrue, Bool.or_eq_true]
  constructor
  · intro h c hc ⟨h1, h2⟩; have := h c hc; simp [h1, h2] at this
  · intro h c hc
    have := h c hc
    cases h1 : a (var k i c) <;> cases h2 : a (var k i' c) <;> simp_all

/-- **C04.1** what a satisfying assignment of the encoded formula says, clause group by clause group -/
theorem sat_encode_iff (k n : Nat) (adj fixed : List (Nat × Nat)) (a : Nat → Bool) :
    sat a (encode k n adj fixed) = true ↔
      (∀ i, i < n → OneColour k a i) ∧
      (∀ p ∈ adj, ∀ c, c < k → ¬ (a (var k p.1 c) = true ∧ a (var k p.2 c) = true)) ∧
      (∀ p ∈ fixed, a (var k p.2 p.1) = true) := by
  unfold encode
  rw [sat_append, sat_append, sat_flatten, sat_flatten, and_assoc]
  refine and_congr ?_ (and_congr ?_ ?_)
  · simp only [List.mem_map, List.mem_range, forall_exists_index, and_imp]
    constructor
    · intro h i hi; exact (sat_item_iff k a i).mp (h _ i hi rfl)
    · rintro h _ i hi rfl; exact (sat_item_iff k a i).mpr (h i hi)
  · simp only [List.mem_map, forall_exists_index, and_imp]
    constructor
    · intro h p hp; exact (sat_conflict_iff k a p.1 p.2).mp (h _ p hp rfl)
    · rintro h _ p hp rfl; exact (sat_conflict_iff k a p.1 p.2).mpr (h p hp)
  · simp [sat, clauseSat, litTrue, List.all_map, Function.comp]

/-! ### colourings -/

/-- a valid assignment: colours in range, conflicting items differ, fixed colours honoured -/
structure Proper (k n : Nat) (adj fixed : List (Nat × Nat)) (c : Nat → Nat) : Prop where
  range : ∀ i, i < n → c i < k
  differ : ∀ p ∈ adj, c p.1 ≠ c p.2
  fixed : ∀ p ∈ fixed, c p.2 = p.1

/-- the inputs koala can build: conflict pairs and fixed entries refer to existing items / colours
    (anything else is an `IndexError` in `l[i, j]`) -/
structure InRange (k n : Nat) (adj fixed : List (Nat × Nat)) : Prop where
  adj : ∀ p ∈ adj, p.1 < n ∧ p.2 < n
  fixed : ∀ p ∈ fixed, p.1 < k ∧ p.2 < n

/-- the one-hot assignment of a colouring -/
def onehot (k n : Nat) (c : Nat → Nat) : Nat → Bool :=
  fun v => decide (0 < v ∧ 0 < k ∧ (v - 1) / k < n ∧ c ((v - 1) / k) = (v - 1) % k)

theorem onehot_var {k n : Nat} (c : Nat → Nat) {i j : Nat} (hj : j < k) :
    onehot k n c (var k i j) = true ↔ i < n ∧ c i = j := by
  unfold onehot var
  have e1 : (i * k + j + 1 - 1) / k = i := by
    rw [Nat.add_sub_cancel, Nat.mul_comm, Nat.mul_add_div (by omega), Nat.div_eq_of_lt hj]; rfl
  have e2 : (i * k + j + 1 - 1) % k = j := by
    rw [Nat.add_sub_cancel, Nat.mul_comm, Nat.mul_add_mod, Nat.mod_eq_of_lt hj]
  simp only [decide_eq_true_eq, e1, e2]
  constructor
  · rintro ⟨_, _, h1, h2⟩; exact ⟨h1, h2⟩
  · rintro ⟨h1, h2⟩; exact ⟨by omega, by omega, h1, h2⟩

/-- **C04.3 completeness**: a valid assignment makes the formula satisfiable (by its one-hot encoding), so
    `unsolvable` can only be reported when no valid assignment exists (given a correct SAT solver) -/
theorem complete {k n : Nat} {adj fixed : List (Nat × Nat)} {c : Nat → Nat}
    (hr : InRange k n adj fixed) (hc : Proper k n adj fixed c) :
    sat (onehot k n c) (encode k n adj fixed) = true := by
  rw [sat_encode_iff]
  refine ⟨?_, ?_, ?_⟩
  · intro i hi
    refine ⟨c i, hc.range i hi, (onehot_var c (hc.range i hi)).mpr ⟨hi, rfl⟩, ?_⟩
    intro j' hj' h
    exact ((onehot_var c hj').mp h).2.symm
  · intro p hp col hcol ⟨h1, h2⟩
    have := ((onehot_var c hcol).mp h1).2
    have := ((onehot_var c hcol).mp h2).2
    exact hc.differ p hp (by omega)
  · intro p hp
    have := hr.fixed p hp
    exact (onehot_var c this.1).mpr ⟨this.2, hc.fixed p hp⟩

theorem unsat_only_if_no_assignment {k n : Nat} {adj fixed : List (Nat × Nat)} (hr : InRange k n adj fixed)
    (hunsat : ∀ a, sat a (encode k n adj fixed) = false) : ¬ ∃ c, Proper k n adj fixed c := by
  rintro ⟨c, hc⟩
  have := complete hr hc
  rw [hunsat] at this
  exact Bool.false_ne_true this

/-! ### decoding -/

theorem getLast?_filter_range_spec (k : Nat) (p : Nat → Bool) (j : Nat) (hj : j < k) (hp : p j = true)
    (hu : ∀ j', j' < k → p j' = true → j' = j) : ((List.range k).filter p).getLast? = some j := by
  have : (List.range k).filter p = [j] := by
    have hnd : ((List.range k).filter p).Nodup := List.nodup_range.filter _
    have hmem : ∀ x, x ∈ (List.range k).filter p ↔ x = j := by
      intro x
      simp only [List.mem_filter, List.mem_range]
      constructor
      · rintro ⟨h1, h2⟩; exact hu x h1 h2
      · rintro rfl; exact ⟨hj, hp⟩
    match hl : (List.range k).filter p with
    | [] => have := (hmem j).mpr rfl; rw [hl] at this; cases this
    | [x] =>
      have := (hmem x).mp (by rw [hl]; simp)
      rw [this]
    | x :: y :: r =>
      have hx := (hmem x).mp (by rw [hl]; simp)
      have hy := (hmem y).mp (by rw [hl]; simp)
      rw [hl] at hnd
      simp [hx, hy] at hnd
  rw [this]; rfl

/-- on an item with exactly one true colour variable, `argmax` returns that colour -/
theorem decode_of_oneColour {k : Nat} {a : Nat → Bool} {i : Nat} (h : OneColour k a i) :
    decode k a i < k ∧ a (var k i (decode k a i)) = true ∧
      ∀ j, j < k → a (var k i j) = true → j = decode k a i := by
  obtain ⟨j, hj, hv, hu⟩ := h
  have : decode k a i = j := by
    unfold decode
    rw [getLast?_filter_range_spec k (fun j => a (var k i j)) j hj hv hu]; rfl
  rw [this]; exact ⟨hj, hv, hu⟩

/-- **C04.2 soundness**: whatever model the solver returns decodes to a valid assignment — colours in range,
    conflicting items coloured differently, every fixed colour honoured -/
theorem sound {k n : Nat} {adj fixed : List (Nat × Nat)} (hr : InRange k n adj fixed) {a : Nat → Bool}
    (h : sat a (encode k n adj fixed) = true) : Proper k n adj fixed (decode k a) := by
  obtain ⟨h1, h2, h3⟩ := (sat_encode_iff k n adj fixed a).mp h
  refine ⟨fun i hi => (decode_of_oneColour (h1 i hi)).1, ?_, ?_⟩
  · intro p hp heq
    have hp' := hr.adj p hp
    have d1 := decode_of_oneColour (h1 p.1 hp'.1)
    have d2 := decode_of_oneColour (h1 p.2 hp'.2)
    exact h2 p hp _ d1.1 ⟨d1.2.1, by rw [heq]; exact d2.2.1⟩
  · intro p hp
    have hp' := hr.fixed p hp
    exact ((decode_of_oneColour (h1 p.2 hp'.2)).2.2 p.1 hp'.1 (h3 p hp)).symm

theorem decode_onehot {k n : Nat} {adj fixed : List (Nat × Nat)} {c : Nat → Nat}
    (hr : InRange k n adj fixed) (hc : Proper k n adj fixed c) {i : Nat} (hi : i < n) :
    decode k (onehot k n c) i = c i := by
  have hs := (sat_encode_iff k n adj fixed _).mp (complete hr hc)
  have d := decode_of_oneColour (hs.1 i hi)
  exact ((onehot_var c d.1).mp d.2.1).2.symm

/-- **C04.4 exactness** (injectivity half): two models that decode to the same assignment agree on every
    reserved variable, so an enumeration of the models never lists one assignment twice … -/
theorem models_injective {k n : Nat} {adj fixed : List (Nat × Nat)} {a a' : Nat → Bool}
    (h : sat a (encode k n adj fixed) = true) (h' : sat a' (encode k n adj fixed) = true)
    (heq : ∀ i, i < n → decode k a i = decode k a' i) :
    ∀ i j, i < n → j < k → a (var k i j) = a' (var k i j) := by
  intro i j hi hj
  have d := decode_of_oneColour (((sat_encode_iff k n adj fixed a).mp h).1 i hi)
  have d' := decode_of_oneColour (((sat_encode_iff k n adj fixed a').mp h').1 i hi)
  rw [heq i hi] at d
  cases h1 : a (var k i j) <;> cases h2 : a' (var k i j)
  · rfl
  · have e := d'.2.2 j hj h2
    rw [e, d.2.1] at h1; exact (Bool.false_ne_true h1.symm).elim
  · have e := d.2.2 j hj h1
    rw [e, d'.2.1] at h2; exact (Bool.false_ne_true h2.symm).elim
  · rfl

/-- … and (surjectivity half) every valid assignment is the decoding of a model -/
theorem models_surjective {k n : Nat} {adj fixed : List (Nat × Nat)} {c : Nat → Nat}
    (hr : InRange k n adj fixed) (hc : Proper k n adj fixed c) :
    ∃ a, sat a (encode k n adj fixed) = true ∧ ∀ i, i < n → decode k a i = c i :=
  ⟨onehot k n c, complete hr hc, fun _ hi => decode_onehot hr hc hi⟩

/-- every variable the formula mentions is a reserved one `1..n*k`: the pairwise encoding introduces no
    auxiliary variables, so the solver's models are exactly the assignments of the reserved variables -/
theorem var_le {k n i j : Nat} (hi : i < n) (hj : j < k) : var k i j ≤ n * k := by
  unfold var
  have : (i + 1) * k ≤ n * k := Nat.mul_le_mul_right k hi
  rw [Nat.add_mul] at this
  omega

/-! ### edge colouring: the conflict list is "distinct edges sharing a vertex" -/

theorem mem_edgeAdj (L : Lat) (i j : Nat) :
    (i, j) ∈ edgeAdj L ↔ i < L.E ∧ j < L.E ∧ j ≠ i ∧
      ((L.endsOf j).1 = (L.endsOf i).1 ∨ (L.endsOf j).2 = (L.endsOf i).1 ∨
       (L.endsOf j).1 = (L.endsOf i).2 ∨ (L.endsOf j).2 = (L.endsOf i).2) := by
  unfold edgeAdj
  simp only [List.mem_flatMap, List.mem_range, List.mem_map, Prod.mk.injEq]
  constructor
  · rintro ⟨i', hi', j', hj', rfl, rfl⟩
    exact ⟨hi', (C02.edgeNeighbours_spec L _ _).mp hj'⟩
  · rintro ⟨hi, h⟩
    exact ⟨i, hi, j, (C02.edgeNeighbours_spec L i j).mpr h, rfl, rfl⟩

theorem edge_inRange (L : Lat) (k : Nat) (fixed : List (Nat × Nat))
    (hf : ∀ p ∈ fixed, p.1 < k ∧ p.2 < L.E) : InRange k L.E (edgeAdj L) fixed where
  adj := by
    rintro ⟨i, j⟩ hp
    have := (mem_edgeAdj L i j).mp hp
    exact ⟨this.1, this.2.1⟩
  fixed := hf

/-- **edge colouring is sound**: the decoded colouring has colours `< k`, two distinct edges meeting at a
    vertex never share a colour, and every `(colour, edge)` in `fixed` is honoured -/
theorem edge_color_sound (L : Lat) (k : Nat) (fixed : List (Nat × Nat))
    (hf : ∀ p ∈ fixed, p.1 < k ∧ p.2 < L.E) (a : Nat → Bool) (h : sat a (encodeEdge L k fixed) = true) :
    (∀ e, e < L.E → decode k a e < k) ∧
    (∀ e e', e < L.E → e' < L.E → e ≠ e' →
      ((L.endsOf e').1 = (L.endsOf e).1 ∨ (L.endsOf e').2 = (L.endsOf e).1 ∨
       (L.endsOf e').1 = (L.endsOf e).2 ∨ (L.endsOf e').2 = (L.endsOf e).2) →
      decode k a e ≠ decode k a e') ∧
    (∀ p ∈ fixed, decode k a p.2 = p.1) := by
  have hp := sound (edge_inRange L k fixed hf) h
  refine ⟨hp.range, ?_, hp.fixed⟩
  intro e e' he he' hne hsh
  exact hp.differ (e, e') ((mem_edgeAdj L e e').mpr ⟨he, he', fun h => hne h.symm, hsh⟩)

/-- **edge colouring is complete** -/
theorem edge_color_complete (L : Lat) (k : Nat) (fixed : List (Nat × Nat))
    (hf : ∀ p ∈ fixed, p.1 < k ∧ p.2 < L.E) (c : Nat → Nat)
    (hrange : ∀ e, e < L.E → c e < k)
    (hdiff : ∀ e e', e < L.E → e' < L.E → e ≠ e' →
      ((L.endsOf e').1 = (L.endsOf e).1 ∨ (L.endsOf e').2 = (L.endsOf e).1 ∨
       (L.endsOf e').1 = (L.endsOf e).2 ∨ (L.endsOf e').2 = (L.endsOf e).2) → c e ≠ c e')
    (hfix : ∀ p ∈ fixed, c p.2 = p.1) :
    sat (onehot k L.E c) (encodeEdge L k fixed) = true := by
  refine complete (edge_inRange L k fixed hf) ⟨hrange, ?_, hfix⟩
  rintro ⟨i, j⟩ hp
  have := (mem_edgeAdj L i j).mp hp
  exact hdiff i j this.1 this.2.1 (fun h => this.2.2.1 h.symm) this.2.2.2

/-! ### vertex colouring -/

theorem le_foldl_max (adj : List (Nat × Nat)) (m : Nat) :
    m ≤ adj.foldl (fun m p => max m (max p.1 p.2 + 1)) m ∧
    ∀ p ∈ adj, max p.1 p.2 + 1 ≤ adj.foldl (fun m p => max m (max p.1 p.2 + 1)) m := by
  induction adj generalizing m with
  | nil => simp
  | cons q r ih =>
    simp only [List.foldl_cons, List.mem_cons, forall_eq_or_imp]
    have := ih (max m (max q.1 q.2 + 1))
    exact ⟨by omega, by omega, this.2⟩

theorem vertex_inRange (adj : List (Nat × Nat)) (k : Nat) : InRange k (nVerticesOf adj) adj [] where
  adj := by
    intro p hp
    have := (le_foldl_max adj 0).2 p hp
    unfold nVerticesOf
    omega
  fixed := by simp

/-- **vertex colouring is sound** for every number of colours (the repaired exactly-one clause) -/
theorem vertex_color_sound (adj : List (Nat × Nat)) (k : Nat) (a : Nat → Bool)
    (h : sat a (encodeVertex adj k) = true) :
    (∀ v, v < nVerticesOf adj → decode k a v < k) ∧ ∀ p ∈ adj, decode k a p.1 ≠ decode k a p.2 := by
  have hp := sound (vertex_inRange adj k) h
  exact ⟨hp.range, hp.differ⟩

theorem vertex_color_complete (adj : List (Nat × Nat)) (k : Nat) (c : Nat → Nat)
    (hrange : ∀ v, v < nVerticesOf adj → c v < k) (hdiff : ∀ p ∈ adj, c p.1 ≠ c p.2) :
    sat (onehot k (nVerticesOf adj) c) (encodeVertex adj k) = true :=
  complete (vertex_inRange adj k) ⟨hrange, hdiff, by simp⟩

/-! ### the historical defect D2: an exactly-one clause over the first three colours only -/

/-- the encoding before the repair: colours 3.. of a vertex are unconstrained by the exactly-one group -/
def encodeVertexOld (adj : List (Nat × Nat)) (k : Nat) : Formula :=
  ((List.range (nVerticesOf adj)).map fun i => exactlyOne ((List.range 3).map fun j => var k i j)).flatten ++
  (adj.map fun p => conflict k p.1 p.2).flatten

/-- K4 is 4-colourable, and the repaired encoding is satisfied by that colouring … -/
example : sat (onehot 4 4 id) (encodeVertex [(0,1),(0,2),(0,3),(1,2),(1,3),(2,3)] 4) = true := by decide
/-- … while with the old encoding the obvious 4-colouring is not a model (vertex 3 has none of colours 0..2) -/
example : sat (onehot 4 4 id) (encodeVertexOld [(0,1),(0,2),(0,3),(1,2),(1,3),(2,3)] 4) = false := by decide

/-! ### dimerisation -/

/-- **C04 dimers**: a model selects, at every vertex, at least one incident edge and no two of them -/
theorem sat_dimer_iff (rows : List (List Nat)) (a : Nat → Bool) :
    sat a (encodeDimer rows) = true ↔
      ∀ r ∈ rows, (∃ e ∈ r, a (e + 1) = true) ∧ r.Pairwise (fun e e' => ¬ (a (e + 1) = true ∧ a (e' + 1) = true)) := by
  unfold encodeDimer
  rw [sat_flatten]
  simp only [List.mem_map, forall_exists_index, and_imp]
  constructor
  · intro h r hr
    have := (sat_exactlyOne a _).mp (h _ r hr rfl)
    simpa [List.pairwise_map] using this
  · rintro h _ r hr rfl
    rw [sat_exactlyOne]
    simpa [List.pairwise_map] using h r hr

/-- … which, for a duplicate-free incident-edge row (C02: `vertex_row_nodup`), is "exactly one dimer at the
    vertex": the selected edges of the row form a singleton list -/
theorem dimer_exactly_one (r : List Nat) (hnd : r.Nodup) (a : Nat → Bool)
    (h : (∃ e ∈ r, a (e + 1) = true) ∧ r.Pairwise (fun e e' => ¬ (a (e + 1) = true ∧ a (e' + 1) = true))) :
    ∃ e, r.filter (fun e => decodeDimer a e == 1) = [e] := by
  obtain ⟨⟨e, he, hae⟩, hp⟩ := h
  refine ⟨e, ?_⟩
  have hdec : ∀ x, (decodeDimer a x == 1) = a (x + 1) := by
    intro x; unfold decodeDimer; cases a (x + 1) <;> simp
  simp only [hdec]
  induction r with
  | nil => cases he
  | cons x xs ih =>
    rw [List.pairwise_cons] at hp
    rw [List.nodup_cons] at hnd
    rcases List.mem_cons.mp he with rfl | hmem
    · have : xs.filter (fun x => a (x + 1)) = [] := by
        rw [List.filter_eq_nil_iff]
        intro y hy hay
        exact hp.1 y hy ⟨hae, hay⟩
      rw [List.filter_cons_of_pos (by simpa using hae), this]
    · have hx : a (x + 1) = false := by
        cases hax : a (x + 1)
        · rfl
        · exact (hp.1 e hmem ⟨hax, hae⟩).elim
      rw [List.filter_cons_of_neg (by simp [hx])]
      exact ih hnd.2 hp.2 hmem

/-- dimerisation of a lattice: the rows are the incident-edge lists of the vertex table -/
theorem dimerise_sound (L : Lat) (a : Nat → Bool)
    (h : sat a (encodeDimer ((List.range L.nV).map (rotAt L))) = true) (v : Nat) (hv : v < L.nV) :
    ∃ e, (rotAt L v).filter (fun e => decodeDimer a e == 1) = [e] := by
  have := (sat_dimer_iff _ a).mp h (rotAt L v) (List.mem_map.mpr ⟨v, List.mem_range.mpr hv, rfl⟩)
  exact dimer_exactly_one _ (C02.vertex_row_nodup L v) a this

/-! ### `color_lattice`: the edges about vertex 0 get colours 0, 1, 2 in the helper's order -/

theorem mem_latticeFixed (L : Lat) (p : Nat × Nat) :
    p ∈ latticeFixed L ↔ ∃ h : p.1 < (Tab.clockwiseAbout L 0).length, (Tab.clockwiseAbout L 0)[p.1] = p.2 := by
  unfold latticeFixed
  simp only [List.mem_map, List.mem_zipIdx_iff_getElem?, Prod.exists]
  constructor
  · rintro ⟨e, j, hj, rfl⟩
    obtain ⟨hlt, heq⟩ := List.getElem?_eq_some_iff.mp (by simpa using hj)
    exact ⟨hlt, heq⟩
  · rintro ⟨hlt, heq⟩
    exact ⟨p.2, p.1, by simp [hlt, heq], rfl⟩

/-- the `j`-th edge returned by `clockwise_edges_about(0)` is coloured `j` -/
theorem color_lattice_fixed (L : Lat) (k : Nat) (a : Nat → Bool)
    (hdeg : (Tab.clockwiseAbout L 0).length ≤ k)
    (h : sat a (encodeEdge L k (latticeFixed L)) = true) (j : Nat) (hj : j < (Tab.clockwiseAbout L 0).length) :
    decode k a (Tab.clockwiseAbout L 0)[j] = j := by
  have hf : ∀ p ∈ latticeFixed L, p.1 < k ∧ p.2 < L.E := by
    intro p hp
    obtain ⟨hlt, heq⟩ := (mem_latticeFixed L p).mp hp
    refine ⟨by omega, ?_⟩
    have hm : p.2 ∈ Tab.clockwiseAbout L 0 := heq ▸ List.getElem_mem hlt
    exact ((C02.vertex_row_complete L 0 p.2).mp ((C02.clockwiseAbout_perm L 0).mem_iff.mp hm)).1
  exact (edge_color_sound L k _ hf a h).2.2 (j, (Tab.clockwiseAbout L 0)[j]) ((mem_latticeFixed L _).mpr ⟨hj, rfl⟩)

/-! ### non-vacuity: a triangle with a pendant edge, 3 colours -/

def exL : Lat := { nV := 4, edges := [(0, 1), (1, 2), (2, 0), (2, 3)], cross := [], pos := [], scale := 1 }
def exC : Nat → Nat := fun e => [0, 1, 2, 0].getD e 0

example : sat (onehot 3 exL.E exC) (encodeEdge exL 3 [(0, 0)]) = true := by decide
example : (List.range exL.E).map (decode 3 (onehot 3 exL.E exC)) = [0, 1, 2, 0] := by decide
-- the triangle is not 2-edge-colourable: every one of the 2^8 assignments falsifies the formula
example : (models 8 (encodeEdge exL 2 [])).length = 0 := by decide +kernel
-- and has exactly 3! = 6 proper 3-edge-colourings (the pendant edge is forced): one model per colouring
example : (models 12 (encodeEdge exL 3 [])).length = 6 := by decide +kernel

end C04
