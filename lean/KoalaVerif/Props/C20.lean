import KoalaVerif.Model.Phase
import Mathlib.Data.List.Basic
import Mathlib.Data.List.Sort
import Mathlib.Data.List.Perm.Basic
import Mathlib.Tactic.Ring
import Mathlib.Tactic.Linarith
import Mathlib.Analysis.SpecialFunctions.Trigonometric.Basic
import Mathlib.Analysis.SpecialFunctions.Sqrt

/-! # C20 — phase-diagram sampling lies on the coupling simplex; parallel map equals serial -/

namespace C20
open Phase

/-! ### sampling points are coupling triples -/

theorem mem_grid (s : Nat) (ij : Nat × Nat) : ij ∈ grid s ↔ ij.1 < s ∧ ij.2 < s := by
  unfold grid
  simp only [List.mem_flatMap, List.mem_range, List.mem_map]
  constructor
  · rintro ⟨j, hj, i, hi, rfl⟩; exact ⟨hi, hj⟩
  · rintro ⟨h1, h2⟩; exact ⟨ij.2, h2, ij.1, h1, rfl⟩

/-- every grid point gives non-negative numerators summing to the denominator: a valid coupling triple -/
theorem triple_valid (s : Nat) (hs : 2 ≤ s) (ij : Nat × Nat) (h : ij ∈ grid s) :
    0 ≤ (triple s ij).1 ∧ 0 ≤ (triple s ij).2.1 ∧ 0 ≤ (triple s ij).2.2 ∧
    (triple s ij).1 + (triple s ij).2.1 + (triple s ij).2.2 = 2 * ((s : Int) - 1) := by
  obtain ⟨h1, h2⟩ := (mem_grid s ij).mp h
  unfold triple
  simp only
  have : (ij.1 : Int) < s := by exact_mod_cast h1
  have : (ij.2 : Int) < s := by exact_mod_cast h2
  refine ⟨by omega, by omega, by omega, by ring⟩

/-- **plain scheme**: every returned triple is non-negative and sums to 1, for every `samples ≥ 2`; the filter removes nothing -/
theorem plain_valid (s : Nat) (hs : 2 ≤ s) (t : Int × Int × Int) (ht : t ∈ plain s) :
    0 ≤ t.1 ∧ 0 ≤ t.2.1 ∧ 0 ≤ t.2.2 ∧ t.1 + t.2.1 + t.2.2 = 2 * ((s : Int) - 1) := by
  unfold plain at ht
  obtain ⟨ij, hij, rfl⟩ := List.mem_map.mp ht
  exact triple_valid s hs ij (List.mem_filter.mp hij).1

theorem plain_keeps_all (s : Nat) (hs : 2 ≤ s) : (grid s).filter (keepPlain s) = grid s := by
  rw [List.filter_eq_self]
  intro ij h
  obtain ⟨h1, h2⟩ := (mem_grid s ij).mp h
  unfold keepPlain
  have : (ij.1 : Int) < s := by exact_mod_cast h1
  have : (ij.2 : Int) < s := by exact_mod_cast h2
  simp only [decide_eq_true_eq]
  omega

theorem length_grid (s : Nat) : (grid s).length = s * s := by
  unfold grid
  rw [List.length_flatMap]
  simp

/-- the plain scheme returns exactly `samples²` points -/
theorem plain_length (s : Nat) (hs : 2 ≤ s) : (plain s).length = s * s := by
  unfold plain
  rw [plain_keeps_all s hs, List.length_map, length_grid]

/-- **symmetric scheme**: every returned grid triple is non-negative and sums to 1 … -/
theorem symmetric_valid (s : Nat) (hs : 2 ≤ s) (t : Int × Int × Int) (ht : t ∈ symmetric s) :
    0 ≤ t.1 ∧ 0 ≤ t.2.1 ∧ 0 ≤ t.2.2 ∧ t.1 + t.2.1 + t.2.2 = 2 * ((s : Int) - 1) := by
  unfold symmetric at ht
  obtain ⟨ij, hij, rfl⟩ := List.mem_map.mp ht
  exact triple_valid s hs ij (List.mem_filter.mp hij).1

/-- … and so is the appended centre `(1/3, 1/3, 1/3)` -/
theorem centre_valid : (0 : ℚ) ≤ 1 / 3 ∧ (1 / 3 : ℚ) + 1 / 3 + (1 - 1 / 3 - 1 / 3) = 1 := by norm_num

/-- the symmetric region is a sixth of the triangle up to half a grid spacing: `x ≤ y + g/2·…` — every kept point has
    `x ≤ y ≤ z` up to the tolerance of the filter -/
theorem symmetric_region (s : Nat) (ij : Nat × Nat) (h : keepSym s ij = true) :
    2 * (s : Int) * ((triple s ij).2.2 - (triple s ij).2.1) ≥ -(2 * ((s : Int) - 1)) ∧
    2 * (s : Int) * ((triple s ij).2.1 - (triple s ij).1) ≥ -(2 * ((s : Int) - 1)) := by
  unfold keepSym at h
  unfold triple
  simpa using h

/-! ### the parallel map returns what the serial map returns -/

variable {α β : Type}

theorem insertByIdx_perm (x : Nat × List β) (l : List (Nat × List β)) : (insertByIdx x l).Perm (x :: l) := by
  induction l with
  | nil => exact List.Perm.refl _
  | cons y ys ih =>
    unfold insertByIdx
    split
    · exact List.Perm.refl _
    · exact (List.Perm.cons y ih).trans (List.Perm.swap x y ys)

theorem sortByIdx_perm (l : List (Nat × List β)) : (sortByIdx l).Perm l := by
  induction l with
  | nil => exact List.Perm.refl _
  | cons x xs ih => exact (insertByIdx_perm x _).trans (List.Perm.cons x ih)

theorem insertByIdx_sorted (x : Nat × List β) (l : List (Nat × List β)) (h : l.Pairwise fun a b => a.1 ≤ b.1) :
    (insertByIdx x l).Pairwise fun a b => a.1 ≤ b.1 := by
  induction l with
  | nil => simp [insertByIdx]
  | cons y ys ih =>
    unfold insertByIdx
    rw [List.pairwise_cons] at h
    split
    · rename_i hxy
      rw [List.pairwise_cons]
      refine ⟨?_, List.pairwise_cons.mpr h⟩
      intro b hb
      rcases List.mem_cons.mp hb with rfl | hb
      · exact hxy
      · exact le_trans hxy (h.1 b hb)
    · rename_i hxy
      rw [List.pairwise_cons]
      refine ⟨?_, ih h.2⟩
      intro b hb
      rcases List.mem_cons.mp ((insertByIdx_perm x ys).mem_iff.mp hb) with rfl | hb
      · omega
      · exact h.1 b hb

theorem sortByIdx_sorted (l : List (Nat × List β)) : (sortByIdx l).Pairwise fun a b => a.1 ≤ b.1 := by
  induction l with
  | nil => simp [sortByIdx]
  | cons x xs ih => exact insertByIdx_sorted x _ ih

/-- two lists with the same elements, both sorted by pairwise different keys, are equal -/
theorem eq_of_perm_sorted_keys (l₁ l₂ : List (Nat × List β)) (hp : l₁.Perm l₂)
    (h₁ : l₁.Pairwise fun a b => a.1 ≤ b.1) (h₂ : l₂.Pairwise fun a b => a.1 < b.1) : l₁ = l₂ := by
  induction l₂ generalizing l₁ with
  | nil => exact hp.eq_nil
  | cons b t ih =>
    rw [List.pairwise_cons] at h₂
    -- the head of l₁ must be b: b has the strictly smallest key
    cases l₁ with
    | nil => exact absurd hp.symm.eq_nil (by simp)
    | cons a u =>
      rw [List.pairwise_cons] at h₁
      have ha : a ∈ b :: t := hp.mem_iff.mp (by simp)
      have hb : b ∈ a :: u := hp.symm.mem_iff.mp (by simp)
      have hab : a = b := by
        rcases List.mem_cons.mp ha with h | h
        · exact h
        · rcases List.mem_cons.mp hb with h' | h'
          · exact h'.symm
          · have := h₂.1 a h; have := h₁.1 b h'; omega
      subst hab
      rw [ih u (List.Perm.cons_inv hp) h₁.2 h₂.2]

theorem zipIdx_keys_sorted (chunks : List (List α)) (f : α → β) (k : Nat) :
    ((chunks.zipIdx k).map fun ci => (ci.2, ci.1.map f)).Pairwise fun a b => a.1 < b.1 := by
  induction chunks generalizing k with
  | nil => simp
  | cons c cs ih =>
    simp only [List.zipIdx_cons, List.map_cons, List.pairwise_cons]
    refine ⟨?_, ih (k + 1)⟩
    intro b hb
    obtain ⟨ci, hci, rfl⟩ := List.mem_map.mp hb
    have := List.mem_zipIdx hci
    simp only
    omega

/-- **C20 parallel = serial**: for every way of cutting the points into consecutive chunks and every order in which
    the workers' results arrive, reassembling by chunk index and concatenating gives exactly `map f points`, in order -/
theorem parallel_eq_serial (f : α → β) (points : List α) (chunks : List (List α)) (hch : chunks.flatten = points)
    (arrived : List (Nat × List β)) (harr : arrived.Perm (workerResults f chunks)) :
    reassemble arrived = points.map f := by
  unfold reassemble
  have hs : sortByIdx arrived = workerResults f chunks := by
    apply eq_of_perm_sorted_keys
    · exact (sortByIdx_perm arrived).trans harr
    · exact sortByIdx_sorted arrived
    · exact zipIdx_keys_sorted chunks f 0
  rw [hs, ← hch]
  unfold workerResults
  rw [List.map_flatten, List.flatMap_def, List.map_map]
  congr 1
  have key : ∀ (cs : List (List α)) (k : Nat),
      List.map ((fun x : Nat × List β => x.2) ∘ fun ci : List α × Nat => (ci.2, ci.1.map f)) (cs.zipIdx k) = List.map (List.map f) cs := by
    intro cs
    induction cs with
    | nil => intro k; rfl
    | cons c cs ih => intro k; simp [List.zipIdx_cons, ih (k + 1)]
  exact key chunks 0

/-- the transposition applied at the end (`.T`) does not depend on the schedule either: it is applied to the reassembled array -/
theorem parallel_eq_serial_any_chunking (f : α → β) (points : List α) (chunks chunks' : List (List α))
    (h : chunks.flatten = points) (h' : chunks'.flatten = points) (arr arr' : List (Nat × List β))
    (ha : arr.Perm (workerResults f chunks)) (ha' : arr'.Perm (workerResults f chunks')) :
    reassemble arr = reassemble arr' := by
  rw [parallel_eq_serial f points chunks h arr ha, parallel_eq_serial f points chunks' h' arr' ha']

/-! ### non-vacuity -/
example : plain 3 = [(0, 0, 4), (1, 0, 3), (2, 0, 2), (0, 1, 3), (1, 1, 2), (2, 1, 1), (0, 2, 2), (1, 2, 1), (2, 2, 0)] := by decide
example : (symmetric 4).length = 7 := by decide
example : reassemble [(2, [30]), (0, [10, 11]), (1, [20])] = [10, 11, 20, 30] := by decide

end C20

namespace C20
open Real

/-! ### the six triangulations of the symmetric scheme are congruent images of one another -/

/-- `rotation(t) @ v` -/
noncomputable def rot (t : ℝ) (v : ℝ × ℝ) : ℝ × ℝ := (cos t * v.1 - sin t * v.2, sin t * v.1 + cos t * v.2)

/-- `skew @ v`: the right triangle of couplings drawn as an equilateral one -/
noncomputable def skew (v : ℝ × ℝ) : ℝ × ℝ := (v.1 + (1 / 2) * v.2, (√3 / 2) * v.2)

def swap (v : ℝ × ℝ) : ℝ × ℝ := (v.2, v.1)

def sqDist (v w : ℝ × ℝ) : ℝ := (v.1 - w.1) ^ 2 + (v.2 - w.2) ^ 2

/-- rotating about a centre keeps every distance -/
theorem rot_about_isometry (t : ℝ) (c v w : ℝ × ℝ) :
    sqDist (let p := rot t (v.1 - c.1, v.2 - c.2); (p.1 + c.1, p.2 + c.2)) (let p := rot t (w.1 - c.1, w.2 - c.2); (p.1 + c.1, p.2 + c.2)) = sqDist v w := by
  simp only [sqDist, rot]
  have h := cos_sq_add_sin_sq t
  nlinarith [h]

/-- exchanging the two couplings before the skew is a reflection of the equilateral triangle: it keeps every distance between skewed points -/
theorem swap_skew_isometry (v w : ℝ × ℝ) : sqDist (skew (swap v)) (skew (swap w)) = sqDist (skew v) (skew w) := by
  simp only [sqDist, skew, swap]
  have h3 : (√3) ^ 2 = 3 := Real.sq_sqrt (by norm_num)
  nlinarith [h3]

end C20
