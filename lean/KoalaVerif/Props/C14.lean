import KoalaVerif.Props.C02
import KoalaVerif.Props.C05
import KoalaVerif.Model.Tree
import Mathlib.Data.List.Basic
import Mathlib.Data.List.Nodup
import Mathlib.Data.List.Count
import Mathlib.Data.List.Perm.Subperm
import Mathlib.Tactic.Tauto
import Mathlib.Tactic.Ring
import Mathlib.Tactic.Linarith

/-! # C14 — the plaquette spanning tree and the enumeration of flux sectors

Everything is proved for an arbitrary plaquette system satisfying `OK` (what C01/C02 establish for the
plaquettes of a loop-free lattice: `sysOf_ok`), for every candidate order (hence for both values of
`shortest_edges_only`), every base bond configuration and every number of plaquettes. -/

namespace C14
open Tree

/-- what the loop may assume about the tables it reads -/
structure OK (S : Sys) : Prop where
  nodup : ∀ p, (S.pedges p).Nodup
  mem_iff : ∀ e p, p < S.F → (e ∈ S.pedges p ↔ (S.sides e).1 = some p ∨ (S.sides e).2 = some p)
  sides_lt : ∀ e p, ((S.sides e).1 = some p ∨ (S.sides e).2 = some p) → p < S.F
  sides_ne : ∀ e p, ¬ ((S.sides e).1 = some p ∧ (S.sides e).2 = some p)

/-- the tables of a family of pairwise dart-disjoint walks that use no edge twice satisfy `OK`
    (C01: `plaquettes_dart_disjoint`, validity filter `noRepeat`; C02: `edgePlaq_spec`) -/
theorem sysOf_ok (ps : List (List Dart)) (hdis : ps.Pairwise List.Disjoint)
    (hnd : ∀ w ∈ ps, (w.map (·.1)).Nodup) : OK (sysOf ps) where
  nodup := by
    intro p
    unfold Sys.pedges sysOf
    simp only
    by_cases hp : p < ps.length
    · have : ps.getD p [] = ps[p] := by simp [List.getD_eq_getElem?_getD, hp]
      rw [this]; exact hnd _ (List.getElem_mem hp)
    · have : ps.getD p [] = [] := by simp [List.getD_eq_getElem?_getD, Nat.le_of_not_lt hp]
      rw [this]; simp
  mem_iff := by
    intro e p hp
    have hp' : p < ps.length := hp
    have hget : (sysOf ps).pedges p = (ps[p]).map (·.1) := by
      unfold Sys.pedges sysOf; simp [List.getD_eq_getElem?_getD, hp']
    rw [hget]
    simp only [sysOf, List.mem_map]
    constructor
    · rintro ⟨⟨e', b⟩, hd, rfl⟩
      cases b
      · left; exact C02.edgePlaq_spec ps hdis _ p hp' hd
      · right; exact C02.edgePlaq_spec ps hdis _ p hp' hd
    · rintro (h | h)
      · obtain ⟨_, hm⟩ := C02.edgePlaq_sound ps _ p h; exact ⟨_, hm, rfl⟩
      · obtain ⟨_, hm⟩ := C02.edgePlaq_sound ps _ p h; exact ⟨_, hm, rfl⟩
  sides_lt := by
    intro e p h
    simp only [sysOf] at h ⊢
    rcases h with h | h
    · exact (C02.edgePlaq_sound ps _ p h).1
    · exact (C02.edgePlaq_sound ps _ p h).1
  sides_ne := by
    rintro e p ⟨h1, h2⟩
    simp only [sysOf] at h1 h2
    obtain ⟨hp, hm1⟩ := C02.edgePlaq_sound ps _ p h1
    obtain ⟨_, hm2⟩ := C02.edgePlaq_sound ps _ p h2
    exact C02.rev_notMem_of_nodup _ (hnd _ (List.getElem_mem hp)) (e, false) hm1 (by simpa using hm2)

/-! ### trees grown by attaching one new plaquette at a time -/

/-- the inductive description of what the loop builds: start from plaquette 0; every further plaquette `p`
    is new and is attached by an edge `e` whose two sides are `p` and an already included plaquette `q`.
    (This is the inductive definition of a tree on the listed plaquettes: connected by construction, and a
    newly attached leaf can close no cycle.) -/
inductive Grown (S : Sys) : List Nat → List Nat → Prop
  | base : Grown S [0] []
  | add {ps es : List Nat} {e p q : Nat} : Grown S ps es → p ∉ ps → q ∈ ps → p < S.F →
      (S.sides e = (some p, some q) ∨ S.sides e = (some q, some p)) → Grown S (ps ++ [p]) (es ++ [e])

theorem Grown.length {S : Sys} {ps es : List Nat} (h : Grown S ps es) : es.length + 1 = ps.length := by
  induction h with
  | base => rfl
  | add _ _ _ _ _ ih => simp [← ih]

/-- no plaquette is inserted twice -/
theorem Grown.nodup_plaq {S : Sys} {ps es : List Nat} (h : Grown S ps es) : ps.Nodup := by
  induction h with
  | base => simp
  | add _ hp _ _ _ ih => exact List.Nodup.append ih (by simp) (by simpa using hp)

/-- every tree edge has a plaquette on both sides, and both are in the tree -/
theorem Grown.sides_in {S : Sys} {ps es : List Nat} (h : Grown S ps es) :
    ∀ y ∈ es, ∃ a b, S.sides y = (some a, some b) ∧ a ∈ ps ∧ b ∈ ps := by
  induction h with
  | base => simp
  | @add ps es e p q _ hp hq _ hs ih =>
    intro y hy
    rcases List.mem_append.mp hy with hy | hy
    · obtain ⟨a, b, h1, h2, h3⟩ := ih y hy
      exact ⟨a, b, h1, by simp [h2], by simp [h3]⟩
    · simp only [List.mem_singleton] at hy; subst hy
      rcases hs with hs | hs
      · exact ⟨p, q, hs, by simp, by simp [hq]⟩
      · exact ⟨q, p, hs, by simp [hq], by simp⟩

/-- the F−1 tree edges are pairwise different -/
theorem Grown.nodup_edges {S : Sys} {ps es : List Nat} (h : Grown S ps es) : es.Nodup := by
  induction h with
  | base => simp
  | @add ps es e p q hg hp _ _ hs ih =>
    refine List.Nodup.append ih (by simp) ?_
    intro e' he hmem
    simp only [List.mem_singleton] at hmem
    rw [hmem] at he
    obtain ⟨a, b, h1, h2, h3⟩ := hg.sides_in e he
    rcases hs with hs | hs <;> rw [hs] at h1 <;> simp only [Prod.mk.injEq, Option.some.injEq] at h1
    · exact hp (h1.1 ▸ h2)
    · exact hp (h1.2 ▸ h3)

/-- two plaquettes are linked when a chain of tree edges joins them -/
inductive Linked (S : Sys) (es : List Nat) : Nat → Nat → Prop
  | refl (p : Nat) : Linked S es p p
  | step {p q r : Nat} {e : Nat} : Linked S es p q → e ∈ es →
      (S.sides e = (some q, some r) ∨ S.sides e = (some r, some q)) → Linked S es p r

theorem Linked.mono {S : Sys} {es es' : List Nat} (hsub : es ⊆ es') {p q : Nat} (h : Linked S es p q) :
    Linked S es' p q := by
  induction h with
  | refl => exact Linked.refl _
  | step _ he hs ih => exact Linked.step ih (hsub he) hs

/-- the tree edges connect every included plaquette to plaquette 0 -/
theorem Grown.connected {S : Sys} {ps es : List Nat} (h : Grown S ps es) : ∀ p ∈ ps, Linked S es 0 p := by
  induction h with
  | base => intro p hp; simp only [List.mem_singleton] at hp; subst hp; exact Linked.refl _
  | @add ps es e p q _ _ hq _ hs ih =>
    intro r hr
    have hsub : es ⊆ es ++ [e] := List.subset_append_left _ _
    rcases List.mem_append.mp hr with hr | hr
    · exact (ih r hr).mono hsub
    · simp only [List.mem_singleton] at hr; subst hr
      refine Linked.step ((ih q hq).mono hsub) (e := e) (by simp) ?_
      rcases hs with hs | hs
      · right; exact hs
      · left; exact hs

/-! ### the loop -/

theorem tryEdge_spec {S : Sys} {ps : List Nat} {e p : Nat} (h : tryEdge S ps e = some p) :
    p ∉ ps ∧ ∃ q, q ∈ ps ∧ (S.sides e = (some p, some q) ∨ S.sides e = (some q, some p)) := by
  unfold tryEdge at h
  split at h
  · rename_i a b hs
    simp only at h
    split at h
    · rename_i hc
      simp only [Bool.and_eq_true, Bool.or_eq_true, Bool.not_eq_true', List.contains_eq_mem,
        decide_eq_false_iff_not, Bool.not_not, decide_eq_true_eq] at hc
      by_cases ha : a ∈ ps
      · have hb : b ∉ ps := by
          rcases hc.1 with h1 | h1
          · exact absurd ha h1
          · exact h1
        have : p = b := by simpa [ha] using h.symm
        subst this
        exact ⟨hb, a, ha, Or.inr hs⟩
      · have hb : b ∈ ps := by
          rcases hc.2 with h1 | h1
          · exact absurd h1 ha
          · exact h1
        have : p = a := by simpa [ha] using h.symm
        subst this
        exact ⟨ha, b, hb, Or.inl hs⟩
    · cases h
  · cases h

theorem pick_spec {S : Sys} {ps cands : List Nat} {e p : Nat} (h : pick S ps cands = some (e, p)) :
    e ∈ cands ∧ tryEdge S ps e = some p := by
  unfold pick at h
  obtain ⟨x, hx, hm⟩ := List.exists_of_findSome?_eq_some h
  cases ht : tryEdge S ps x with
  | none => rw [ht] at hm; cases hm
  | some p' =>
    rw [ht] at hm
    simp only [Option.map_some, Option.some.injEq, Prod.mk.injEq] at hm
    obtain ⟨rfl, rfl⟩ := hm
    exact ⟨hx, ht⟩

def chosen (s : St) : List Nat := s.edgesIn.filterMap id

/-- **C14.1 tree property, for every candidate order**: whatever order the boundary edges are tried in,
    the included plaquettes and the chosen edges form a tree grown from plaquette 0 -/
theorem run_grown (S : Sys) (hS : OK S) (ords : Nat → List Nat → List Nat) (n : Nat) :
    Grown S (run S ords n).plaqIn (chosen (run S ords n)) := by
  induction n with
  | zero => exact Grown.base
  | succ n ih =>
    simp only [run, step]
    cases hp : pick S (run S ords n).plaqIn (ords n (run S ords n).boundary) with
    | none => simpa [chosen, List.filterMap_append] using ih
    | some ep =>
      obtain ⟨e, p⟩ := ep
      obtain ⟨_, ht⟩ := pick_spec hp
      obtain ⟨hnot, q, hq, hs⟩ := tryEdge_spec ht
      have hlt : p < S.F := hS.sides_lt e p (by rcases hs with hs | hs <;> simp [hs])
      simpa [chosen, List.filterMap_append] using Grown.add ih hnot hq hlt hs

/-! ### the boundary bookkeeping and completeness -/

def sideIn (o : Option Nat) (l : List Nat) : Prop := ∃ a, o = some a ∧ a ∈ l

theorem ins_perm (x : Nat) (l : List Nat) : (ins x l).Perm (x :: l) := by
  induction l with
  | nil => exact List.Perm.refl _
  | cons y ys ih =>
    unfold ins
    split
    · exact List.Perm.refl _
    · exact (List.Perm.cons y ih).trans (List.Perm.swap x y ys)

theorem isort_perm (l : List Nat) : (isort l).Perm l := by
  induction l with
  | nil => exact List.Perm.refl _
  | cons x xs ih => exact (ins_perm x _).trans (List.Perm.cons x ih)

theorem mem_oddOnce {b new : List Nat} (hb : b.Nodup) (hn : new.Nodup) (x : Nat) :
    x ∈ oddOnce b new ↔ (x ∈ b ∧ x ∉ new) ∨ (x ∉ b ∧ x ∈ new) := by
  unfold oddOnce
  simp only [List.mem_filter, (isort_perm _).mem_iff, List.mem_append, beq_iff_eq, List.count_append]
  by_cases h1 : x ∈ b <;> by_cases h2 : x ∈ new <;>
    simp [h1, h2, List.count_eq_one_of_mem, List.count_eq_zero_of_not_mem, hb, hn]

theorem oddOnce_nodup (b new : List Nat) : (oddOnce b new).Nodup := by
  show (List.filter (fun x => List.count x (b ++ new) == 1) (isort (b ++ new))).Nodup
  rw [List.nodup_iff_count_le_one]
  intro x
  by_cases h : ((b ++ new).count x == 1) = true
  · have e1 := List.count_filter (p := fun y => List.count y (b ++ new) == 1) (a := x) (l := isort (b ++ new)) h
    rw [e1, (isort_perm _).count_eq]
    simp only [beq_iff_eq] at h
    omega
  · have hnm : x ∉ List.filter (fun y => List.count y (b ++ new) == 1) (isort (b ++ new)) :=
      fun hm => h (List.mem_filter.mp hm).2
    rw [List.count_eq_zero_of_not_mem hnm]
    omega

/-- the bookkeeping invariant: the boundary array holds exactly the edges with exactly one included side -/
structure Inv (S : Sys) (s : St) : Prop where
  nodupP : s.plaqIn.Nodup
  bnd : ∀ e, e ∈ s.boundary ↔
      (sideIn (S.sides e).1 s.plaqIn ∧ ¬ sideIn (S.sides e).2 s.plaqIn) ∨
      (¬ sideIn (S.sides e).1 s.plaqIn ∧ sideIn (S.sides e).2 s.plaqIn)
  bnodup : s.boundary.Nodup
  ltF : ∀ p ∈ s.plaqIn, p < S.F

theorem xor_step (A B P1 P2 : Prop) (hne : ¬ (P1 ∧ P2)) (n1 : P1 → ¬ A) (n2 : P2 → ¬ B) :
    ((((A ∧ ¬ B) ∨ (¬ A ∧ B)) ∧ ¬ (P1 ∨ P2)) ∨ (¬ ((A ∧ ¬ B) ∨ (¬ A ∧ B)) ∧ (P1 ∨ P2))) ↔
      (((A ∨ P1) ∧ ¬ (B ∨ P2)) ∨ (¬ (A ∨ P1) ∧ (B ∨ P2))) := by
  by_cases hA : A <;> by_cases hB : B <;> by_cases h1 : P1 <;> by_cases h2 : P2 <;> simp_all

theorem sideIn_append {o : Option Nat} {l : List Nat} {p : Nat} :
    sideIn o (l ++ [p]) ↔ sideIn o l ∨ o = some p := by
  unfold sideIn
  constructor
  · rintro ⟨a, h1, h2⟩
    rcases List.mem_append.mp h2 with h | h
    · exact Or.inl ⟨a, h1, h⟩
    · simp only [List.mem_singleton] at h; subst h; exact Or.inr h1
  · rintro (⟨a, h1, h2⟩ | h)
    · exact ⟨a, h1, by simp [h2]⟩
    · exact ⟨p, h, by simp⟩

theorem inv_init (S : Sys) (hS : OK S) (hF : 0 < S.F) : Inv S (init S) where
  nodupP := by simp [init]
  bnodup := hS.nodup 0
  ltF := by simp [init, hF]
  bnd := by
    intro e
    simp only [init]
    rw [hS.mem_iff e 0 hF]
    have hne := hS.sides_ne e 0
    have k1 : sideIn (S.sides e).1 [0] ↔ (S.sides e).1 = some 0 := by
      unfold sideIn; constructor
      · rintro ⟨a, h1, h2⟩; simp only [List.mem_singleton] at h2; subst h2; exact h1
      · intro h; exact ⟨0, h, by simp⟩
    have k2 : sideIn (S.sides e).2 [0] ↔ (S.sides e).2 = some 0 := by
      unfold sideIn; constructor
      · rintro ⟨a, h1, h2⟩; simp only [List.mem_singleton] at h2; subst h2; exact h1
      · intro h; exact ⟨0, h, by simp⟩
    rw [k1, k2]; tauto

theorem inv_step (S : Sys) (hS : OK S) (ord : List Nat → List Nat) (s : St) (h : Inv S s) : Inv S (step S ord s) := by
  unfold step
  cases hp : pick S s.plaqIn (ord s.boundary) with
  | none => exact ⟨h.nodupP, h.bnd, h.bnodup, h.ltF⟩
  | some ep =>
    obtain ⟨e, p⟩ := ep
    obtain ⟨_, ht⟩ := pick_spec hp
    obtain ⟨hnot, q, hq, hs⟩ := tryEdge_spec ht
    have hlt : p < S.F := hS.sides_lt e p (by rcases hs with hs | hs <;> simp [hs])
    refine ⟨List.Nodup.append h.nodupP (by simp) (by simpa using hnot), ?_, oddOnce_nodup _ _, ?_⟩
    · intro x
      simp only
      rw [mem_oddOnce h.bnodup (hS.nodup p), h.bnd x, hS.mem_iff x p hlt, sideIn_append, sideIn_append]
      have hne := hS.sides_ne x p
      have n1 : (S.sides x).1 = some p → ¬ sideIn (S.sides x).1 s.plaqIn := by
        rintro h1 ⟨a, h2, h3⟩; rw [h1] at h2; injection h2 with h2; exact hnot (h2 ▸ h3)
      have n2 : (S.sides x).2 = some p → ¬ sideIn (S.sides x).2 s.plaqIn := by
        rintro h1 ⟨a, h2, h3⟩; rw [h1] at h2; injection h2 with h2; exact hnot (h2 ▸ h3)
      exact xor_step _ _ _ _ hne n1 n2
    · intro r hr
      rcases List.mem_append.mp hr with hr | hr
      · exact h.ltF r hr
      · simp only [List.mem_singleton] at hr; subst hr; exact hlt

theorem inv_run (S : Sys) (hS : OK S) (hF : 0 < S.F) (ords : Nat → List Nat → List Nat) (n : Nat) :
    Inv S (run S ords n) := by
  induction n with
  | zero => exact inv_init S hS hF
  | succ n ih => exact inv_step S hS _ _ ih

/-- the plaquettes are connected through shared edges: every proper set of plaquettes containing plaquette 0
    has an edge with one side inside and one outside -/
def Connected (S : Sys) : Prop :=
  ∀ ps : List Nat, 0 ∈ ps → (∃ q, q < S.F ∧ q ∉ ps) →
    ∃ e a b, S.sides e = (some a, some b) ∧ ((a ∈ ps ∧ b ∉ ps) ∨ (a ∉ ps ∧ b ∈ ps))

theorem exists_missing {ps : List Nat} {F : Nat} (hnd : ps.Nodup) (hlen : ps.length < F) :
    ∃ q, q < F ∧ q ∉ ps := by
  by_contra hcon
  have hall : ∀ q, q < F → q ∈ ps := fun q hq => Classical.byContradiction fun h => hcon ⟨q, hq, h⟩
  have hsub : List.range F ⊆ ps := fun x hx => hall x (List.mem_range.mp hx)
  have := (List.nodup_range.subperm hsub).length_le
  simp at this
  omega

theorem zero_mem_run (S : Sys) (ords : Nat → List Nat → List Nat) (n : Nat) : 0 ∈ (run S ords n).plaqIn := by
  induction n with
  | zero => simp [run, init]
  | succ n ih =>
    simp only [run, step]
    split <;> simp [ih]

/-- **C14.1 completeness**: on a connected plaquette graph, with any candidate order that tries every
    boundary edge, no iteration fails: after `n ≤ F−1` iterations there are `n+1` plaquettes and `n` chosen
    edges, none of them the `-1` filler -/
theorem run_complete (S : Sys) (hS : OK S) (hc : Connected S) (ords : Nat → List Nat → List Nat)
    (hord : ∀ n l, l ⊆ ords n l) (n : Nat) (hn : n < S.F) :
    (run S ords n).plaqIn.length = n + 1 ∧ (run S ords n).edgesIn.length = n ∧
      ∀ x ∈ (run S ords n).edgesIn, x ≠ none := by
  induction n with
  | zero => simp [run, init]
  | succ n ih =>
    obtain ⟨ih1, ih2, ih3⟩ := ih (by omega)
    have hinv := inv_run S hS (by omega) ords n
    obtain ⟨q, hq, hqn⟩ := exists_missing hinv.nodupP (by omega : (run S ords n).plaqIn.length < S.F)
    obtain ⟨e, a, b, hs, hab⟩ := hc _ (zero_mem_run S ords n) ⟨q, hq, hqn⟩
    -- e is a boundary edge, it is tried, and the test accepts it
    have hmem : e ∈ (run S ords n).boundary := by
      rw [hinv.bnd e, hs]
      unfold sideIn
      rcases hab with ⟨h1, h2⟩ | ⟨h1, h2⟩
      · left; exact ⟨⟨a, rfl, h1⟩, by rintro ⟨x, hx, hx'⟩; injection hx with hx; exact h2 (hx ▸ hx')⟩
      · right; exact ⟨by rintro ⟨x, hx, hx'⟩; injection hx with hx; exact h1 (hx ▸ hx'), ⟨b, rfl, h2⟩⟩
    have htry : tryEdge S (run S ords n).plaqIn e ≠ none := by
      unfold tryEdge
      rw [hs]
      rcases hab with ⟨h1, h2⟩ | ⟨h1, h2⟩ <;> simp [h1, h2]
    have hpick : pick S (run S ords n).plaqIn (ords n (run S ords n).boundary) ≠ none := by
      unfold pick
      intro hnone
      rw [List.findSome?_eq_none_iff] at hnone
      have := hnone e (hord n _ hmem)
      cases ht : tryEdge S (run S ords n).plaqIn e with
      | none => exact htry ht
      | some p => rw [ht] at this; cases this
    simp only [run, step]
    cases hp : pick S (run S ords n).plaqIn (ords n (run S ords n).boundary) with
    | none => exact absurd hp hpick
    | some ep =>
      obtain ⟨e', p⟩ := ep
      refine ⟨by simp [ih1], by simp [ih2], ?_⟩
      intro x hx
      rcases List.mem_append.mp hx with hx | hx
      · exact ih3 x hx
      · simp only [List.mem_singleton] at hx; subst hx; simp

/-- **C14.1** `plaquette_spanning_tree` on a connected plaquette graph: `F−1` edges, none missing, pairwise
    different, each two-sided, forming with all `F` plaquettes a tree grown from plaquette 0 — for every
    candidate order, i.e. with or without the shortest-edge preference -/
theorem spanning_tree_spec (S : Sys) (hS : OK S) (hF : 0 < S.F) (hc : Connected S)
    (ords : Nat → List Nat → List Nat) (hord : ∀ n l, l ⊆ ords n l) :
    let r := run S ords (S.F - 1)
    spanningTree S ords = (chosen r).map some ∧ (chosen r).length = S.F - 1 ∧ r.plaqIn.length = S.F ∧
      (chosen r).Nodup ∧ r.plaqIn.Nodup ∧ (∀ p, p < S.F → p ∈ r.plaqIn) ∧
      Grown S r.plaqIn (chosen r) ∧ (∀ p, p < S.F → Linked S (chosen r) 0 p) := by
  intro r
  obtain ⟨h1, h2, h3⟩ := run_complete S hS hc ords hord (S.F - 1) (by omega)
  have hg : Grown S r.plaqIn (chosen r) := run_grown S hS ords _
  have hall : spanningTree S ords = (chosen r).map some := by
    show r.edgesIn = (r.edgesIn.filterMap id).map some
    generalize r.edgesIn = l at h3
    induction l with
    | nil => rfl
    | cons x xs ih =>
      cases x with
      | none => exact absurd rfl (h3 none (by simp))
      | some v =>
        have := ih (fun y hy => h3 y (by simp [hy]))
        simp only [List.filterMap_cons, id_eq, List.map_cons]
        exact congrArg (some v :: ·) this
  have h1' : r.plaqIn.length = S.F - 1 + 1 := h1
  have hlen : (chosen r).length = S.F - 1 := by have := hg.length; omega
  have hinv := inv_run S hS hF ords (S.F - 1)
  have hmem : ∀ p, p < S.F → p ∈ r.plaqIn := by
    intro p hp
    by_contra hnot
    -- a duplicate-free list of F numbers below F contains them all
    have hsub : r.plaqIn ⊆ List.range S.F := fun x hx => List.mem_range.mpr (hinv.ltF x hx)
    have hperm : r.plaqIn.Perm (List.range S.F) :=
      ((hinv.nodupP.subperm hsub).perm_of_length_le (by simp; omega))
    exact hnot (hperm.mem_iff.mpr (List.mem_range.mpr hp))
  exact ⟨hall, hlen, by omega, hg.nodup_edges, hg.nodup_plaq, hmem, hg, fun p hp => hg.connected p (hmem p hp)⟩

/-! ### `n_to_ujk_flipped` -/

def bval (b : Bool) : Int := if b then -1 else 1

theorem length_bitsMSB (n N : Nat) : (bitsMSB n N).length = N := by
  induction N with
  | zero => rfl
  | succ N ih => simp [bitsMSB, ih]

def ofBits : List Bool → Nat
  | [] => 0
  | b :: bs => (if b then 2 ^ bs.length else 0) + ofBits bs

theorem ofBits_bitsMSB (n N : Nat) : ofBits (bitsMSB n N) = n % 2 ^ N := by
  induction N with
  | zero => simp [bitsMSB, ofBits, Nat.mod_one]
  | succ N ih =>
    simp only [bitsMSB, ofBits, length_bitsMSB, ih]
    rw [Nat.mod_pow_succ]
    have h2 : n / 2 ^ N % 2 = 0 ∨ n / 2 ^ N % 2 = 1 := by omega
    rcases h2 with h | h <;> simp [h] <;> omega

/-- **C14.2a** different integers below `2^N` give different digit strings -/
theorem digits_injective {n n' N : Nat} (hn : n < 2 ^ N) (hn' : n' < 2 ^ N) (h : bitsMSB n N = bitsMSB n' N) : n = n' := by
  have := congrArg ofBits h
  rwa [ofBits_bitsMSB, ofBits_bitsMSB, Nat.mod_eq_of_lt hn, Nat.mod_eq_of_lt hn'] at this

/-- **C14.2b** bonds off the tree are left untouched -/
theorem setBonds_notMem (u : Nat → Int) (es : List Nat) (bs : List Bool) (y : Nat) (hy : y ∉ es) :
    setBonds u es bs y = u y := by
  induction es generalizing u bs with
  | nil => cases bs <;> rfl
  | cons e es ih =>
    cases bs with
    | nil => rfl
    | cons b bs =>
      simp only [setBonds]
      rw [ih _ _ (fun h => hy (by simp [h]))]
      have : y ≠ e := fun h => hy (by simp [h])
      simp [this]

theorem others_untouched (n : Nat) (u : Nat → Int) (tree : List Nat) (y : Nat) (hy : y ∉ tree) :
    nToUjkFlipped n u tree y = u y := setBonds_notMem u tree _ y hy

theorem setBonds_concat (u : Nat → Int) (es : List Nat) (bs : List Bool) (e : Nat) (x : Bool)
    (hl : bs.length = es.length) :
    setBonds u (es ++ [e]) (bs ++ [x]) = fun y => if y = e then bval x else setBonds u es bs y := by
  induction es generalizing u bs with
  | nil =>
    cases bs with
    | nil => funext y; simp [setBonds, bval]
    | cons _ _ => simp at hl
  | cons a es ih =>
    cases bs with
    | nil => simp at hl
    | cons b bs =>
      simp only [List.cons_append, setBonds]
      rw [ih _ _ (by simpa using hl)]

theorem setBonds_pm (u : Nat → Int) (hu : ∀ e, u e = 1 ∨ u e = -1) (es : List Nat) (bs : List Bool) :
    ∀ y, setBonds u es bs y = 1 ∨ setBonds u es bs y = -1 := by
  induction es generalizing u bs with
  | nil => cases bs <;> exact hu
  | cons e es ih =>
    cases bs with
    | nil => exact hu
    | cons b bs =>
      simp only [setBonds]
      apply ih
      intro y
      by_cases h : y = e
      · cases b <;> simp [h]
      · simp [h, hu y]

/-! ### different integers give different flux sectors -/

theorem flux_congr (u u' : Nat → Int) (w : List Dart) (h : ∀ d ∈ w, u d.1 = u' d.1) : flux u w = flux u' w := by
  unfold flux
  congr 1
  apply List.map_congr_left
  intro d hd
  rw [h d hd]

theorem flux_ne_zero (u : Nat → Int) (hu : ∀ e, u e = 1 ∨ u e = -1) (w : List Dart) : flux u w ≠ 0 := by
  have := C05.flux_pm_one u w (fun d _ => hu d.1)
  rcases this with h | h <;> rw [h] <;> decide

/-- setting bond `e` to a value is either the identity or a flip of `e`, decided by the old value at `e` -/
theorem setOne_eq (v : Nat → Int) (e : Nat) (x : Bool) (hv : v e = 1 ∨ v e = -1) :
    (fun y => if y = e then bval x else v y) = (if v e = bval x then v else flip1 e v) := by
  by_cases h : v e = bval x
  · rw [if_pos h]; funext y
    by_cases hy : y = e
    · subst hy; simp [h]
    · simp [hy]
  · rw [if_neg h]; funext y
    by_cases hy : y = e
    · subst hy
      simp only [if_true, flip1]
      cases x <;> rcases hv with hv | hv <;> simp_all [bval]
    · simp [hy, flip1]

/-- **C14.3** on a tree grown as above, two different bit strings give bond configurations whose fluxes
    differ on at least one plaquette of the tree -/
theorem sectors_differ (S : Sys) (hS : OK S) {ps es : List Nat} (hg : Grown S ps es) (u : Nat → Int)
    (hu : ∀ e, u e = 1 ∨ u e = -1) :
    ∀ bs bs' : List Bool, bs.length = es.length → bs'.length = es.length → bs ≠ bs' →
      ∃ p ∈ ps, flux (setBonds u es bs) (S.pdarts p) ≠ flux (setBonds u es bs') (S.pdarts p) := by
  induction hg with
  | base =>
    intro bs bs' h1 h2 hne
    simp only [List.length_nil, List.length_eq_zero_iff] at h1 h2
    exact absurd (h1.trans h2.symm) hne
  | @add ps es e p q hg hp hq hlt hs ih =>
    intro bs bs' h1 h2 hne
    have hb : bs ≠ [] := by intro h; simp [h] at h1
    have hb' : bs' ≠ [] := by intro h; simp [h] at h2
    obtain ⟨cs, x, rfl⟩ : ∃ cs x, bs = cs ++ [x] := ⟨bs.dropLast, bs.getLast hb, (List.dropLast_concat_getLast hb).symm⟩
    obtain ⟨cs', x', rfl⟩ : ∃ cs x, bs' = cs ++ [x] := ⟨bs'.dropLast, bs'.getLast hb', (List.dropLast_concat_getLast hb').symm⟩
    simp only [List.length_append, List.length_singleton, Nat.add_right_cancel_iff] at h1 h2 hne ⊢
    rw [setBonds_concat u es cs e x h1, setBonds_concat u es cs' e x' h2]
    -- facts about the new edge and the new plaquette
    have he_p : e ∈ S.pedges p := (hS.mem_iff e p hlt).mpr (by rcases hs with hs | hs <;> simp [hs])
    have hes_p : ∀ y ∈ es, y ∉ S.pedges p := by
      intro y hy hyp
      obtain ⟨a, b, h1, h2, h3⟩ := hg.sides_in y hy
      rcases (hS.mem_iff y p hlt).mp hyp with h | h <;> rw [h1] at h <;> simp only [Option.some.injEq] at h
      · exact hp (h ▸ h2)
      · exact hp (h ▸ h3)
    have he_es : e ∉ es := by
      have := (Grown.add hg hp hq hlt hs).nodup_edges
      rw [List.nodup_append] at this
      intro h; exact this.2.2 e h e (by simp) rfl
    set v := setBonds u es cs with hv
    set v' := setBonds u es cs' with hv'
    have hve : v e = u e := setBonds_notMem u es cs e he_es
    have hve' : v' e = u e := setBonds_notMem u es cs' e he_es
    have hvpm := setBonds_pm u hu es cs
    have hvpm' := setBonds_pm u hu es cs'
    by_cases hx : x = x'
    · -- the last bits agree: the difference is among the earlier bits; setting e the same way in both
      -- multiplies both fluxes by the same sign
      subst hx
      have hcs : cs ≠ cs' := fun h => hne (by rw [h])
      obtain ⟨r, hr, hdiff⟩ := ih cs cs' h1 h2 hcs
      refine ⟨r, by simp [hr], ?_⟩
      rw [setOne_eq v e x (hvpm e), setOne_eq v' e x (hvpm' e), hve, hve']
      split
      · exact hdiff
      · by_cases hmem : e ∈ (S.pdarts r).map (·.1)
        · rw [C05.single_flip v e _ (hS.nodup r), C05.single_flip v' e _ (hS.nodup r)]
          simp only [hmem, if_true]
          intro h; apply hdiff; linarith
        · rw [C05.flux_flip1_notMem v e _ hmem, C05.flux_flip1_notMem v' e _ hmem]
          exact hdiff
    · -- the last bits differ: look at the plaquette attached last; e is its only tree edge
      refine ⟨p, by simp, ?_⟩
      set U : Nat → Int := fun y => if y = e then bval x else v y with hU
      have hagree : ∀ d ∈ S.pdarts p, (fun y => if y = e then bval x' else v' y) d.1 = flip1 e U d.1 := by
        intro d hd
        have hdm : d.1 ∈ S.pedges p := List.mem_map.mpr ⟨d, hd, rfl⟩
        by_cases hde : d.1 = e
        · simp only [hde, if_true, flip1, hU]
          cases x <;> cases x' <;> simp_all [bval]
        · have hnes : d.1 ∉ es := fun h => hes_p _ h hdm
          simp only [hde, if_false, flip1, hU, hv, hv']
          rw [setBonds_notMem u es cs' _ hnes, setBonds_notMem u es cs _ hnes]
      rw [flux_congr (fun y => if y = e then bval x' else v' y) (flip1 e U) _ hagree, C05.single_flip U e _ (hS.nodup p)]
      have hmem : e ∈ (S.pdarts p).map (·.1) := he_p
      simp only [hmem, if_true]
      have hUpm : ∀ y, U y = 1 ∨ U y = -1 := by
        intro y; simp only [hU]; split
        · cases x <;> simp [bval]
        · exact hvpm y
      have := flux_ne_zero U hUpm (S.pdarts p)
      intro h; apply this; linarith

/-- **C14.3** `n ↦ fluxes(n_to_ujk_flipped(n, u, tree))` is injective on `0 .. 2^(F−1) − 1`: the `2^(F−1)`
    integers produce pairwise different flux sectors -/
theorem sectors_injective (S : Sys) (hS : OK S) {ps es : List Nat} (hg : Grown S ps es) (u : Nat → Int)
    (hu : ∀ e, u e = 1 ∨ u e = -1) {n n' : Nat} (hn : n < 2 ^ es.length) (hn' : n' < 2 ^ es.length) (hne : n ≠ n') :
    ∃ p ∈ ps, flux (nToUjkFlipped n u es) (S.pdarts p) ≠ flux (nToUjkFlipped n' u es) (S.pdarts p) :=
  sectors_differ S hS hg u hu _ _ (length_bitsMSB _ _) (length_bitsMSB _ _)
    (fun h => hne (digits_injective hn hn' h))

/-! ### the enumeration reaches precisely the parity class -/

theorem ofBits_lt (bs : List Bool) : ofBits bs < 2 ^ bs.length := by
  induction bs with
  | nil => simp [ofBits]
  | cons b bs ih =>
    simp only [ofBits, List.length_cons, Nat.pow_succ]
    split <;> omega

theorem bitsMSB_ofBits (bs : List Bool) : bitsMSB (ofBits bs) bs.length = bs := by
  induction bs with
  | nil => rfl
  | cons b bs ih =>
    simp only [List.length_cons, bitsMSB, ofBits]
    have hlt := ofBits_lt bs
    congr 1
    · cases b
      · simp only [Bool.false_eq_true, if_false, Nat.zero_add]
        rw [Nat.div_eq_of_lt hlt]; rfl
      · simp only [if_true]
        have : (2 ^ bs.length + ofBits bs) / 2 ^ bs.length = 1 := by
          rw [Nat.add_div_left _ (Nat.two_pow_pos _), Nat.div_eq_of_lt hlt]
        rw [this]; rfl
    · -- the lower digits do not see the leading one
      have key : ∀ (N : Nat) (a m : Nat), N ≤ m → bitsMSB (a * 2 ^ m + ofBits bs) N = bitsMSB (ofBits bs) N := by
        intro N
        induction N with
        | zero => intros; rfl
        | succ N ihN =>
          intro a m hm
          simp only [bitsMSB]
          rw [ihN a m (by omega)]
          congr 2
          obtain ⟨d, rfl⟩ : ∃ d, m = N + 1 + d := ⟨m - (N + 1), by omega⟩
          have : a * 2 ^ (N + 1 + d) = (a * 2 ^ d * 2) * 2 ^ N := by
            rw [Nat.pow_add, Nat.pow_succ]; ring
          rw [this, Nat.add_comm, Nat.add_mul_div_right _ _ (Nat.two_pow_pos _)]
          omega
      cases b
      · simp only [Bool.false_eq_true, if_false, Nat.zero_add]; exact ih
      · simp only [if_true]
        have := key bs.length 1 bs.length (Nat.le_refl _)
        rw [Nat.one_mul] at this
        rw [this]; exact ih

theorem prod_flip_one (l : List Nat) (hnd : l.Nodup) (q : Nat) (hq : q ∈ l) (f : Nat → Int) :
    (l.map fun r => if r = q then -(f r) else f r).prod = -(l.map f).prod := by
  induction l with
  | nil => simp at hq
  | cons a t ih =>
    rw [List.nodup_cons] at hnd
    simp only [List.map_cons, List.prod_cons]
    by_cases ha : a = q
    · subst ha
      have : (t.map fun r => if r = a then -(f r) else f r) = t.map f := by
        apply List.map_congr_left
        intro r hr
        have : r ≠ a := fun h => hnd.1 (h ▸ hr)
        simp [this]
      rw [this]; simp
    · have hqt : q ∈ t := by
        rcases List.mem_cons.mp hq with h | h
        · exact absurd h.symm ha
        · exact h
      rw [ih hnd.2 hqt]; simp [ha]

/-- setting one bond multiplies the flux of a plaquette by −1 exactly when the bond changes and borders it -/
theorem setOne_flux (S : Sys) (hS : OK S) (v : Nat → Int) (hv : ∀ e, v e = 1 ∨ v e = -1) (e : Nat) (x : Bool) (r : Nat) :
    flux (fun y => if y = e then bval x else v y) (S.pdarts r)
      = (if v e ≠ bval x ∧ e ∈ S.pedges r then -1 else 1) * flux v (S.pdarts r) := by
  rw [setOne_eq v e x (hv e)]
  by_cases h : v e = bval x
  · simp [h]
  · rw [if_neg h, C05.single_flip v e _ (hS.nodup r)]
    simp only [ne_eq, h, not_false_eq_true, true_and]
    rfl

/-- among the plaquettes already in the tree the new edge borders only `q` -/
theorem Grown.new_edge_iff {S : Sys} (hS : OK S) {ps : List Nat} {e p q : Nat} (hp : p ∉ ps)
    (hs : S.sides e = (some p, some q) ∨ S.sides e = (some q, some p)) {r : Nat} (hr : r ∈ ps) (hrF : r < S.F) :
    e ∈ S.pedges r ↔ r = q := by
  rw [hS.mem_iff e r hrF]
  constructor
  · rintro (h | h) <;> rcases hs with hs | hs <;> rw [hs] at h <;> simp only [Option.some.injEq] at h
    · exact absurd (h ▸ hr) hp
    · exact h.symm
    · exact h.symm
    · exact absurd (h ▸ hr) hp
  · rintro rfl
    rcases hs with hs | hs <;> simp [hs]

theorem Grown.lt_F {S : Sys} (hF : 0 < S.F) {ps es : List Nat} (h : Grown S ps es) : ∀ p ∈ ps, p < S.F := by
  induction h with
  | base => intro p hp; simp at hp; omega
  | add hg _ _ hlt _ ih =>
    intro r hr
    rcases List.mem_append.mp hr with h | h
    · exact ih r h
    · simp at h; omega



/-- the flux of the freshly attached plaquette does not depend on the earlier tree bonds -/
theorem flux_new_plaq {S : Sys} (hS : OK S) {ps es : List Nat} (hg : Grown S ps es) {p : Nat} (hp : p ∉ ps) (hlt : p < S.F)
    (u : Nat → Int) (cs : List Bool) : flux (setBonds u es cs) (S.pdarts p) = flux u (S.pdarts p) := by
  apply flux_congr
  intro d hd
  apply setBonds_notMem
  intro hy
  have hdm : d.1 ∈ S.pedges p := List.mem_map.mpr ⟨d, hd, rfl⟩
  obtain ⟨a, b, h1, h2, h3⟩ := hg.sides_in d.1 hy
  rcases (hS.mem_iff d.1 p hlt).mp hdm with h | h <;> rw [h1] at h <;> simp only [Option.some.injEq] at h
  · exact hp (h ▸ h2)
  · exact hp (h ▸ h3)

/-- **C14.4a** every integer gives a sector in the parity class of the base configuration: the product of
    the fluxes over the plaquettes of the tree does not change -/
theorem sectors_parity (S : Sys) (hS : OK S) (hF : 0 < S.F) {ps es : List Nat} (hg : Grown S ps es) (u : Nat → Int)
    (hu : ∀ e, u e = 1 ∨ u e = -1) :
    ∀ bs : List Bool, bs.length = es.length →
      (ps.map fun p => flux (setBonds u es bs) (S.pdarts p)).prod = (ps.map fun p => flux u (S.pdarts p)).prod := by
  induction hg with
  | base => intro bs h; simp only [List.length_nil, List.length_eq_zero_iff] at h; subst h; rfl
  | @add ps es e p q hg hp hq hlt hs ih =>
    intro bs h1
    have hb : bs ≠ [] := by intro h; simp [h] at h1
    obtain ⟨cs, x, rfl⟩ : ∃ cs x, bs = cs ++ [x] := ⟨bs.dropLast, bs.getLast hb, (List.dropLast_concat_getLast hb).symm⟩
    simp only [List.length_append, List.length_singleton, Nat.add_right_cancel_iff] at h1
    rw [setBonds_concat u es cs e x h1]
    set v := setBonds u es cs with hv
    have hvpm := setBonds_pm u hu es cs
    have he_es : e ∉ es := by
      have := (Grown.add hg hp hq hlt hs).nodup_edges
      rw [List.nodup_append] at this
      intro h; exact this.2.2 e h e (by simp) rfl
    have hve : v e = u e := setBonds_notMem u es cs e he_es
    have he_p : e ∈ S.pedges p := (hS.mem_iff e p hlt).mpr (by rcases hs with hs | hs <;> simp [hs])
    simp only [List.map_append, List.map_cons, List.map_nil, List.prod_append, List.prod_cons, List.prod_nil, mul_one]
    rw [setOne_flux S hS v hvpm e x p, flux_new_plaq hS hg hp hlt u cs, ← ih cs h1]
    by_cases hc : v e = bval x
    · have : (ps.map fun r => flux (fun y => if y = e then bval x else v y) (S.pdarts r))
          = ps.map fun r => flux v (S.pdarts r) := by
        apply List.map_congr_left; intro r _
        rw [setOne_flux S hS v hvpm e x r]; simp [hc]
      rw [this]; simp only [hc, ne_eq, not_true_eq_false, false_and, if_false, one_mul]; rfl
    · have : (ps.map fun r => flux (fun y => if y = e then bval x else v y) (S.pdarts r))
          = ps.map fun r => if r = q then -(flux v (S.pdarts r)) else flux v (S.pdarts r) := by
        apply List.map_congr_left; intro r hr
        rw [setOne_flux S hS v hvpm e x r]
        simp only [Grown.new_edge_iff hS hp hs hr (hg.lt_F hF r hr)]
        by_cases hrq : r = q <;> simp [hc, hrq]
      rw [this, prod_flip_one ps hg.nodup_plaq q hq]
      simp only [ne_eq, hc, not_false_eq_true, he_p, and_self, if_true]
      ring

/-- **C14.4b** conversely every sector of that parity class is reached: for every assignment `φ` of ±1 to the
    plaquettes whose product equals the product of the base fluxes there is a digit string producing it -/
theorem sectors_reach (S : Sys) (hS : OK S) (hF : 0 < S.F) {ps es : List Nat} (hg : Grown S ps es) (u : Nat → Int)
    (hu : ∀ e, u e = 1 ∨ u e = -1) :
    ∀ φ : Nat → Int, (∀ p, φ p = 1 ∨ φ p = -1) →
      (ps.map φ).prod = (ps.map fun p => flux u (S.pdarts p)).prod →
      ∃ bs : List Bool, bs.length = es.length ∧ ∀ p ∈ ps, flux (setBonds u es bs) (S.pdarts p) = φ p := by
  induction hg with
  | base =>
    intro φ _ hpar
    refine ⟨[], rfl, ?_⟩
    intro p hp
    simp only [List.mem_singleton] at hp; subst hp
    show flux u (S.pdarts 0) = φ 0
    simpa using hpar.symm
  | @add ps es e p q hg hp hq hlt hs ih =>
    intro φ hφ hpar
    have hs_pm : flux u (S.pdarts p) = 1 ∨ flux u (S.pdarts p) = -1 := C05.flux_pm_one u _ (fun d _ => hu d.1)
    obtain ⟨s, hs_def⟩ : ∃ s, flux u (S.pdarts p) = s := ⟨_, rfl⟩
    rw [hs_def] at hs_pm
    have he_es : e ∉ es := by
      have := (Grown.add hg hp hq hlt hs).nodup_edges
      rw [List.nodup_append] at this
      intro h; exact this.2.2 e h e (by simp) rfl
    have he_p : e ∈ S.pedges p := (hS.mem_iff e p hlt).mpr (by rcases hs with hs | hs <;> simp [hs])
    simp only [List.map_append, List.map_cons, List.map_nil, List.prod_append, List.prod_cons, List.prod_nil, mul_one] at hpar
    rw [hs_def] at hpar
    by_cases hc : φ p = s
    · -- the new plaquette already has the wanted flux: keep e as it is
      obtain ⟨x, hx⟩ : ∃ x, bval x = u e := by
        rcases hu e with h | h
        · exact ⟨false, by simp [bval, h]⟩
        · exact ⟨true, by simp [bval, h]⟩
      have hpar' : (ps.map φ).prod = (ps.map fun p => flux u (S.pdarts p)).prod := by
        rw [hc] at hpar
        rcases hs_pm with h | h <;> rw [h] at hpar <;> linarith
      obtain ⟨cs, hlen, hcs⟩ := ih φ hφ hpar'
      refine ⟨cs ++ [x], by simp [hlen], ?_⟩
      rw [setBonds_concat u es cs e x hlen]
      set v := setBonds u es cs with hv
      have hvpm := setBonds_pm u hu es cs
      have hve : v e = bval x := by rw [hx]; exact setBonds_notMem u es cs e he_es
      intro r hr
      rw [setOne_flux S hS v hvpm e x r]
      simp only [ne_eq, hve, not_true_eq_false, false_and, if_false, one_mul]
      rcases List.mem_append.mp hr with h | h
      · exact hcs r h
      · simp only [List.mem_singleton] at h; subst h
        rw [flux_new_plaq hS hg hp hlt u cs, hs_def]; exact hc.symm
    · -- flip e: this also flips q, so ask the smaller tree for the opposite flux at q
      have hφp : φ p = -s := by
        rcases hφ p with h | h <;> rcases hs_pm with h' | h' <;> rw [h, h'] at hc ⊢ <;> simp_all
      obtain ⟨x, hx⟩ : ∃ x, bval x = -(u e) := by
        rcases hu e with h | h
        · exact ⟨true, by simp [bval, h]⟩
        · exact ⟨false, by simp [bval, h]⟩
      set φ' : Nat → Int := fun r => if r = q then -(φ r) else φ r with hφ'
      have hφ'pm : ∀ r, φ' r = 1 ∨ φ' r = -1 := by
        intro r; simp only [hφ']; split
        · rcases hφ r with h | h <;> simp [h]
        · exact hφ r
      have hpar' : (ps.map φ').prod = (ps.map fun p => flux u (S.pdarts p)).prod := by
        rw [prod_flip_one ps hg.nodup_plaq q hq, ]
        rw [hφp] at hpar
        rcases hs_pm with h | h <;> rw [h] at hpar <;> linarith
      obtain ⟨cs, hlen, hcs⟩ := ih φ' hφ'pm hpar'
      refine ⟨cs ++ [x], by simp [hlen], ?_⟩
      rw [setBonds_concat u es cs e x hlen]
      set v := setBonds u es cs with hv
      have hvpm := setBonds_pm u hu es cs
      have hve : v e = u e := setBonds_notMem u es cs e he_es
      have hne : v e ≠ bval x := by
        rw [hve, hx]; rcases hu e with h | h <;> rw [h] <;> decide
      intro r hr
      rw [setOne_flux S hS v hvpm e x r]
      rcases List.mem_append.mp hr with h | h
      · simp only [Grown.new_edge_iff hS hp hs h (hg.lt_F hF r h)]
        rw [hcs r h]
        by_cases hrq : r = q <;> simp [hne, hrq, hφ']
      · simp only [List.mem_singleton] at h; subst h
        rw [flux_new_plaq hS hg hp hlt u cs, hs_def]
        simp only [ne_eq, hne, not_false_eq_true, he_p, and_self, if_true]
        rw [hφp]; ring

/-- **C14.4** the integers `0 .. 2^(F−1) − 1` produce *precisely* the sectors of the parity class: `φ` is
    produced by some `n` iff the product of `φ` equals the product of the base fluxes.  On a closed lattice
    (every edge two-sided) the product of the base fluxes is the global constraint `(−1)^E` of C05. -/
theorem sectors_precisely (S : Sys) (hS : OK S) (hF : 0 < S.F) {ps es : List Nat} (hg : Grown S ps es) (u : Nat → Int)
    (hu : ∀ e, u e = 1 ∨ u e = -1) (φ : Nat → Int) (hφ : ∀ p, φ p = 1 ∨ φ p = -1) :
    (∃ n, n < 2 ^ es.length ∧ ∀ p ∈ ps, flux (nToUjkFlipped n u es) (S.pdarts p) = φ p)
      ↔ (ps.map φ).prod = (ps.map fun p => flux u (S.pdarts p)).prod := by
  constructor
  · rintro ⟨n, _, hn⟩
    rw [← sectors_parity S hS hF hg u hu (bitsMSB n es.length) (length_bitsMSB _ _)]
    congr 1
    apply List.map_congr_left
    intro p hp; exact (hn p hp).symm
  · intro hpar
    obtain ⟨bs, hlen, hbs⟩ := sectors_reach S hS hF hg u hu φ hφ hpar
    refine ⟨ofBits bs, by rw [← hlen]; exact ofBits_lt bs, ?_⟩
    intro p hp
    unfold nToUjkFlipped
    rw [← hlen, bitsMSB_ofBits]; exact hbs p hp

/-- **C14.4 (end to end)** with the tree actually computed by `plaquette_spanning_tree` on a connected
    plaquette graph — for every candidate order — an assignment `φ` of ±1 to *all* `F` plaquettes is produced
    by some `n < 2^(F−1)` iff its product equals the product of the base fluxes over all plaquettes. -/
theorem enumeration_precisely (S : Sys) (hS : OK S) (hF : 0 < S.F) (hc : Connected S)
    (ords : Nat → List Nat → List Nat) (hord : ∀ n l, l ⊆ ords n l) (u : Nat → Int) (hu : ∀ e, u e = 1 ∨ u e = -1)
    (φ : Nat → Int) (hφ : ∀ p, φ p = 1 ∨ φ p = -1) :
    (∃ n, n < 2 ^ (S.F - 1) ∧ ∀ p, p < S.F →
        flux (nToUjkFlipped n u (chosen (run S ords (S.F - 1)))) (S.pdarts p) = φ p)
      ↔ ((List.range S.F).map φ).prod = ((List.range S.F).map fun p => flux u (S.pdarts p)).prod := by
  obtain ⟨_, hlen, hplen, _, hnd, hmem, hg, _⟩ := spanning_tree_spec S hS hF hc ords hord
  have hinv := inv_run S hS hF ords (S.F - 1)
  have hsub : (run S ords (S.F - 1)).plaqIn ⊆ List.range S.F := fun x hx => List.mem_range.mpr (hinv.ltF x hx)
  have hperm : (run S ords (S.F - 1)).plaqIn.Perm (List.range S.F) :=
    (hnd.subperm hsub).perm_of_length_le (by simp; omega)
  rw [← (hperm.map φ).prod_eq, ← (hperm.map fun p => flux u (S.pdarts p)).prod_eq,
    ← sectors_precisely S hS hF hg u hu φ hφ, hlen]
  constructor
  · rintro ⟨n, hn, h⟩; exact ⟨n, hn, fun p hp => h p (hinv.ltF p hp)⟩
  · rintro ⟨n, hn, h⟩; exact ⟨n, hn, fun p hp => h p (hmem p hp)⟩

/-! ### non-vacuity: three plaquettes in a row (plaquette 0 –e1– plaquette 1 –e3– plaquette 2) -/

def exS : Sys :=
  { F := 3
    pdarts := fun p => [[(0, false), (1, false)], [(1, true), (2, false), (3, false)], [(3, true), (4, false)]].getD p []
    sides := fun e => [(some 0, none), (some 0, some 1), (some 1, none), (some 1, some 2), (some 2, none)].getD e (none, none) }

example : spanningTree exS (fun _ l => l) = [some 1, some 3] := by decide
example : spanningTree exS (fun _ l => l.reverse) = [some 1, some 3] := by decide
example : (List.range 4).map (fun n => (List.range 3).map fun p => flux (nToUjkFlipped n (fun _ => 1) [1, 3]) (exS.pdarts p))
    = [[1, 1, -1], [1, -1, 1], [-1, -1, -1], [-1, 1, 1]] := by decide

/-- the four sectors above are exactly the four of the eight sign patterns whose product is that of the base sector -/
example : ((List.range 8).map fun k => [bval (k % 2 == 1), bval (k / 2 % 2 == 1), bval (k / 4 % 2 == 1)]).filter (fun φ => φ.prod == -1)
    = [[-1, 1, 1], [1, -1, 1], [1, 1, -1], [-1, -1, -1]] := by decide

end C14
