import KoalaVerif.Props.C14
import KoalaVerif.Model.Solver
import KoalaVerif.Generated.Kernels
import KoalaVerif.Generated.Tables
import Mathlib.Tactic.Ring
import Mathlib.Tactic.Linarith

/-! # C06 — the flux-sector solver reaches every target sector up to the parity obstruction

The solver is modelled over an arbitrary plaquette system satisfying `C14.OK` and an arbitrary flux function
obeying single-bond locality (`FlipLaw`), so the same theorems cover `ujk_from_fluxes` (flux `Π(−u·d)`) and
the deprecated `find_flux_sector` (flux `sign_real[n mod 4]·Π(u·d)`).  The path finder is a parameter: every
recorded path must be a chain of plaquettes joined by the listed edges (`Chain`; that the real path finder
returns such chains is C11). -/

namespace C06
open Tree Solver C14

/-! ### single-bond locality for both flux conventions -/

/-- the law the solver relies on: flipping bond `e` negates the flux of `p` iff `e` is an edge of `p` -/
def FlipLaw (S : Sys) (Φ : (Nat → Int) → Nat → Int) : Prop :=
  ∀ u e p, Φ (flip1 e u) p = (if e ∈ S.pedges p then -1 else 1) * Φ u p

theorem flipLaw_new (S : Sys) (hS : OK S) : FlipLaw S (fun u p => flux u (S.pdarts p)) := by
  intro u e p
  exact C05.single_flip u e (S.pdarts p) (hS.nodup p)

theorem prod_flip1 (u : Nat → Int) (e : Nat) (w : List Dart) (hnd : (w.map (·.1)).Nodup) :
    (w.map fun d => flip1 e u d.1 * dirSign d).prod =
      (if e ∈ w.map (·.1) then -1 else 1) * (w.map fun d => u d.1 * dirSign d).prod := by
  induction w with
  | nil => simp
  | cons a t ih =>
    rw [List.map_cons, List.nodup_cons] at hnd
    simp only [List.map_cons, List.prod_cons]
    by_cases hae : a.1 = e
    · have hnot : e ∉ t.map (·.1) := hae ▸ hnd.1
      have ht : (t.map fun d => flip1 e u d.1 * dirSign d) = t.map fun d => u d.1 * dirSign d := by
        apply List.map_congr_left
        intro d hd
        have : d.1 ≠ e := fun hh => hnot (List.mem_map.mpr ⟨d, hd, hh⟩)
        simp [flip1, this]
      rw [ht]
      simp only [List.mem_cons, hae, true_or, if_true]
      simp [flip1, hae]
    · have hea : ¬ e = a.1 := fun h => hae h.symm
      rw [ih hnd.2]
      simp only [List.mem_cons, hea, false_or]
      have : flip1 e u a.1 = u a.1 := by simp [flip1, hae]
      rw [this]; ring

theorem flipLaw_old (S : Sys) (hS : OK S) (sr : List Int) : FlipLaw S (fun u p => fluxOld sr u (S.pdarts p)) := by
  intro u e p
  simp only [fluxOld]
  rw [prod_flip1 u e (S.pdarts p) (hS.nodup p)]
  simp only [Sys.pedges]
  by_cases hm : e ∈ List.map (fun x => x.1) (S.pdarts p)
  · simp only [hm, if_true]; ring
  · simp only [hm, if_false]; ring

/-! ### flipping a set of bonds; chains -/

theorem flipEdges_cons (e : Nat) (es : List Nat) (he : e ∉ es) (u : Nat → Int) :
    flipEdges (e :: es) u = flip1 e (flipEdges es u) := by
  funext x
  unfold flipEdges flip1
  by_cases hx : x = e
  · subst hx; simp [he]
  · simp [hx]

/-- sign picked up by plaquette `q` when every bond of `es` is flipped -/
def togSign (S : Sys) (q : Nat) (es : List Nat) : Int :=
  (es.map fun e => if e ∈ S.pedges q then (-1 : Int) else 1).prod

theorem flux_flipEdges (S : Sys) (Φ : (Nat → Int) → Nat → Int) (hΦ : FlipLaw S Φ) (es : List Nat) (hnd : es.Nodup)
    (u : Nat → Int) (q : Nat) : Φ (flipEdges es u) q = togSign S q es * Φ u q := by
  induction es with
  | nil =>
    have : flipEdges [] u = u := by funext x; simp [flipEdges]
    simp [this, togSign]
  | cons e es ih =>
    rw [List.nodup_cons] at hnd
    rw [flipEdges_cons e es hnd.1, hΦ, ih hnd.2]
    simp only [togSign, List.map_cons, List.prod_cons]
    ring

def ind (q p : Nat) : Int := if p = q then -1 else 1

theorem ind_sq (q p : Nat) : ind q p * ind q p = 1 := by unfold ind; split <;> rfl

/-- a chain of plaquettes `p0 –e1– p1 … –ek– pk`: every listed edge has the two consecutive plaquettes on
    its two sides -/
inductive Chain (S : Sys) : Nat → List Nat → Nat → Prop
  | nil (p : Nat) : Chain S p [] p
  | cons {p p' pk : Nat} {e : Nat} {es : List Nat}
      (hs : S.sides e = (some p, some p') ∨ S.sides e = (some p', some p)) (rest : Chain S p' es pk) :
      Chain S p (e :: es) pk

/-- **two-ends law**: flipping all bonds of a chain changes the sign of exactly its two end plaquettes
    (of none if the ends coincide) -/
theorem chain_toggle (S : Sys) (hS : OK S) (q : Nat) (hq : q < S.F) {p0 pk : Nat} {es : List Nat}
    (h : Chain S p0 es pk) : togSign S q es = ind q p0 * ind q pk := by
  induction h with
  | nil p => simp [togSign, ind_sq]
  | @cons p p' pk e es hs rest ih =>
    unfold togSign at ih ⊢
    simp only [List.map_cons, List.prod_cons, ih]
    have hne : p ≠ p' := by
      intro heq
      apply hS.sides_ne e p
      rcases hs with hs | hs <;> rw [hs] <;> simp [heq]
    have hstep : (if e ∈ S.pedges q then (-1 : Int) else 1) = ind q p * ind q p' := by
      have hiff := hS.mem_iff e q hq
      unfold ind
      by_cases hm : e ∈ S.pedges q
      · rw [if_pos hm]
        have := hiff.mp hm
        rcases hs with h1 | h1 <;> rw [h1] at this <;> simp only [Option.some.injEq] at this <;>
          by_cases a : p = q <;> by_cases b : p' = q <;> simp_all
      · rw [if_neg hm]
        have := fun h => hm (hiff.mpr h)
        rcases hs with h1 | h1 <;> rw [h1] at this <;> simp only [Option.some.injEq] at this <;>
          by_cases a : p = q <;> by_cases b : p' = q <;> simp_all
    rw [hstep]
    calc ind q p * ind q p' * (ind q p' * ind q pk) = ind q p * (ind q p' * ind q p') * ind q pk := by ring
      _ = ind q p * ind q pk := by rw [ind_sq]; ring

/-- the executable chain test accepts only chains -/
theorem chain_of_chainOK (S : Sys) (nodes es : List Nat) (h : chainOK S nodes es = true) :
    ∃ a b, nodes.head? = some a ∧ nodes.getLast? = some b ∧ Chain S a es b := by
  induction nodes generalizing es with
  | nil => simp [chainOK] at h
  | cons p ns ih =>
    cases ns with
    | nil =>
      cases es with
      | nil => exact ⟨p, p, rfl, rfl, Chain.nil p⟩
      | cons _ _ => simp [chainOK] at h
    | cons p' ns =>
      cases es with
      | nil => simp [chainOK] at h
      | cons e es =>
        simp only [chainOK, Bool.and_eq_true, Bool.or_eq_true, beq_iff_eq] at h
        obtain ⟨a, b, ha, hb, hc⟩ := ih es h.2
        simp only [List.head?_cons, Option.some.injEq] at ha
        subst ha
        exact ⟨p, b, rfl, by simpa [List.getLast?_cons_cons] using hb, Chain.cons h.1 hc⟩

/-! ### the invariant of the solver -/

/-- `flux(bonds)·fluxes_to_flip = target` on every plaquette -/
def InvT (S : Sys) (Φ : (Nat → Int) → Nat → Int) (target : Nat → Int) (s : Solver.St) : Prop :=
  ∀ p, p < S.F → Φ s.bonds p * s.toFlip p = target p

theorem ind_comm (p q : Nat) : ind q p = ind p q := by
  unfold ind; by_cases h : p = q
  · simp [h]
  · simp [h, Ne.symm h]

theorem negAt2 (f : Nat → Int) (a b p : Nat) : negAt (negAt f a) b p = ind p a * ind p b * f p := by
  rw [ind_comm a p, ind_comm b p]
  unfold negAt ind
  split_ifs <;> ring

/-- flipping the shared bond of two adjacent plaquettes and toggling both entries keeps the invariant -/
theorem adj_step_inv (S : Sys) (hS : OK S) (Φ : (Nat → Int) → Nat → Int) (hΦ : FlipLaw S Φ) (target : Nat → Int)
    (s : Solver.St) (h : InvT S Φ target s) (e a b : Nat) (hs : S.sides e = (some a, some b)) :
    InvT S Φ target { bonds := flip1 e s.bonds, toFlip := negAt (negAt s.toFlip a) b } := by
  intro p hp
  simp only
  rw [hΦ, negAt2, ← h p hp]
  have := chain_toggle S hS p hp (Chain.cons (Or.inl hs) (Chain.nil b))
  simp only [togSign, List.map_cons, List.map_nil, List.prod_cons, List.prod_nil, mul_one] at this
  rw [this]
  have h1 := ind_sq p a; have h2 := ind_sq p b
  calc ind p a * ind p b * Φ s.bonds p * (ind p a * ind p b * s.toFlip p)
      = (ind p a * ind p a) * (ind p b * ind p b) * (Φ s.bonds p * s.toFlip p) := by ring
    _ = Φ s.bonds p * s.toFlip p := by rw [h1, h2]; ring

/-- flipping the bonds of a chain between `a` and `b` and toggling both entries keeps the invariant -/
theorem path_step_inv (S : Sys) (hS : OK S) (Φ : (Nat → Int) → Nat → Int) (hΦ : FlipLaw S Φ) (target : Nat → Int)
    (s : Solver.St) (h : InvT S Φ target s) (a b : Nat) (es : List Nat) (hnd : es.Nodup)
    (hc : Chain S b es a ∨ Chain S a es b) : InvT S Φ target (pathStep s a b es) := by
  intro p hp
  simp only [pathStep]
  rw [flux_flipEdges S Φ hΦ es hnd, negAt2, ← h p hp]
  have ht : togSign S p es = ind p a * ind p b := by
    rcases hc with hc | hc
    · rw [chain_toggle S hS p hp hc]; ring
    · exact chain_toggle S hS p hp hc
  rw [ht]
  have h1 := ind_sq p a; have h2 := ind_sq p b
  calc ind p a * ind p b * Φ s.bonds p * (ind p a * ind p b * s.toFlip p)
      = (ind p a * ind p a) * (ind p b * ind p b) * (Φ s.bonds p * s.toFlip p) := by ring
    _ = Φ s.bonds p * s.toFlip p := by rw [h1, h2]; ring

/-! ### counting the plaquettes that still have to change -/

theorem negs_negAt (F : Nat) (f : Nat → Int) (a : Nat) (ha : f a = -1) :
    negs F (negAt f a) = (negs F f).erase a := by
  unfold negs
  rw [(List.nodup_range.filter _).erase_eq_filter, List.filter_filter]
  apply List.filter_congr
  intro p _
  unfold negAt
  by_cases hp : p = a
  · subst hp; simp [ha]
  · simp [hp]

theorem negs_nodup (F : Nat) (f : Nat → Int) : (negs F f).Nodup := List.nodup_range.filter _

theorem mem_negs (F : Nat) (f : Nat → Int) (p : Nat) : p ∈ negs F f ↔ p < F ∧ f p = -1 := by
  unfold negs; simp [List.mem_filter]

/-- toggling two different `-1` entries removes exactly those two from the to-do list -/
theorem negs_pair (F : Nat) (f : Nat → Int) (a b : Nat) (hab : a ≠ b) (ha : a < F) (hb : b < F)
    (hfa : f a = -1) (hfb : f b = -1) :
    negs F (negAt (negAt f a) b) = ((negs F f).erase a).erase b ∧
      (negs F (negAt (negAt f a) b)).length + 2 = (negs F f).length := by
  have hfb' : negAt f a b = -1 := by unfold negAt; simp [Ne.symm hab, hfb]
  have e1 : negs F (negAt (negAt f a) b) = ((negs F f).erase a).erase b := by
    rw [negs_negAt F _ b hfb', negs_negAt F f a hfa]
  refine ⟨e1, ?_⟩
  rw [e1]
  have hma : a ∈ negs F f := (mem_negs F f a).mpr ⟨ha, hfa⟩
  have hmb : b ∈ (negs F f).erase a := (List.mem_erase_of_ne (Ne.symm hab)).mpr ((mem_negs F f b).mpr ⟨hb, hfb⟩)
  rw [List.length_erase_of_mem hmb, List.length_erase_of_mem hma]
  have : 0 < (negs F f).length := List.length_pos_of_mem hma
  have : 0 < ((negs F f).erase a).length := List.length_pos_of_mem hmb
  rw [List.length_erase_of_mem hma] at this
  omega

/-- **the adjacent-pair pass** keeps the invariant, only ever lowers the number of plaquettes still to change,
    and lowers it by an even amount -/
theorem adjacentPass_spec (S : Sys) (hS : OK S) (Φ : (Nat → Int) → Nat → Int) (hΦ : FlipLaw S Φ) (target : Nat → Int)
    (es : List Nat) (s : Solver.St) (h : InvT S Φ target s) :
    InvT S Φ target (adjacentPass S es s) ∧
      ∃ k, (negs S.F (adjacentPass S es s).toFlip).length + 2 * k = (negs S.F s.toFlip).length := by
  induction es generalizing s with
  | nil => exact ⟨h, 0, rfl⟩
  | cons e rest ih =>
    unfold adjacentPass
    split
    · rename_i a b hs
      split
      · rename_i hc
        simp only [Bool.and_eq_true, beq_iff_eq] at hc
        have ha : a < S.F := hS.sides_lt e a (by simp [hs])
        have hb : b < S.F := hS.sides_lt e b (by simp [hs])
        have hab : a ≠ b := fun heq => hS.sides_ne e a (by simp [hs, heq])
        obtain ⟨hi, k, hk⟩ := ih _ (adj_step_inv S hS Φ hΦ target s h e a b hs)
        refine ⟨hi, k + 1, ?_⟩
        have := (negs_pair S.F s.toFlip a b hab ha hb hc.1 hc.2).2
        simp only at hk
        omega
      · exact ih s h
    · exact ⟨h, 0, rfl⟩

/-- the recorded path steps: chains with pairwise different edges between plaquettes that are pairwise
    different and all still marked `-1` -/
inductive StepsOK (S : Sys) : (Nat → Int) → List (Nat × Nat × List Nat) → Prop
  | nil (f : Nat → Int) : StepsOK S f []
  | cons {f : Nat → Int} {a b : Nat} {es : List Nat} {rest : List (Nat × Nat × List Nat)} :
      a ≠ b → a < S.F → b < S.F → f a = -1 → f b = -1 → es.Nodup → (Chain S b es a ∨ Chain S a es b) →
      StepsOK S (negAt (negAt f a) b) rest → StepsOK S f ((a, b, es) :: rest)

/-- **the path pass** keeps the invariant and removes exactly two plaquettes per path from the to-do list -/
theorem isolatedPass_spec (S : Sys) (hS : OK S) (Φ : (Nat → Int) → Nat → Int) (hΦ : FlipLaw S Φ) (target : Nat → Int)
    (steps : List (Nat × Nat × List Nat)) (s : Solver.St) (h : InvT S Φ target s) (hok : StepsOK S s.toFlip steps) :
    InvT S Φ target (isolatedPass s steps) ∧
      (negs S.F (isolatedPass s steps).toFlip).length + 2 * steps.length = (negs S.F s.toFlip).length := by
  induction steps generalizing s with
  | nil => exact ⟨h, rfl⟩
  | cons t rest ih =>
    cases hok with
    | @cons _ a b es _ hab ha hb hfa hfb hnd hc hrest =>
      have hi := path_step_inv S hS Φ hΦ target s h a b es hnd hc
      obtain ⟨h1, h2⟩ := ih (pathStep s a b es) hi hrest
      refine ⟨h1, ?_⟩
      have := (negs_pair S.F s.toFlip a b hab ha hb hfa hfb).2
      have h2' : (negs S.F (isolatedPass (pathStep s a b es) rest).toFlip).length + 2 * rest.length
          = (negs S.F (negAt (negAt s.toFlip a) b)).length := h2
      show (negs S.F (isolatedPass (pathStep s a b es) rest).toFlip).length + 2 * (rest.length + 1) = _
      omega

/-! ### the contract -/

theorem fdiv_pm (t i : Int) (ht : t = 1 ∨ t = -1) (hi : i = 1 ∨ i = -1) : Int.fdiv t i = t * i := by
  rcases ht with rfl | rfl <;> rcases hi with rfl | rfl <;> decide

/-- the plaquettes on which the result misses the target are exactly those still marked `-1` -/
theorem residual_eq (S : Sys) (Φ : (Nat → Int) → Nat → Int) (target : Nat → Int) (s : Solver.St)
    (h : InvT S Φ target s) (htf : ∀ p, s.toFlip p = 1 ∨ s.toFlip p = -1)
    (hΦpm : ∀ p, Φ s.bonds p = 1 ∨ Φ s.bonds p = -1) (p : Nat) (hp : p < S.F) :
    Φ s.bonds p ≠ target p ↔ p ∈ negs S.F s.toFlip := by
  rw [mem_negs, ← h p hp]
  rcases htf p with h1 | h1 <;> rcases hΦpm p with h2 | h2 <;> simp [h1, h2, hp]

/-- **C06 contract** (both flux conventions, any path oracle that returns chains): starting from any guess
    and any target, if the recorded steps pair up all plaquettes still to change but at most one
    (`leftover ≤ 1`, which `pairingOK` checks), then the result has the target flux everywhere when the number
    of plaquettes that had to change is even, and everywhere but exactly one plaquette when it is odd -/
theorem solve_contract (S : Sys) (hS : OK S) (Φ : (Nat → Int) → Nat → Int) (hΦ : FlipLaw S Φ) (nE : Nat)
    (target guess : Nat → Int) (htpm : ∀ p, target p = 1 ∨ target p = -1)
    (hgpm : ∀ p, Φ guess p = 1 ∨ Φ guess p = -1)
    (steps : List (Nat × Nat × List Nat))
    (hok : StepsOK S (adjacentPass S (List.range nE)
              { bonds := guess, toFlip := fun p => Int.fdiv (target p) (Φ guess p) }).toFlip steps) :
    let r := solve S nE Φ target guess steps
    let todo := negs S.F (fun p => Int.fdiv (target p) (Φ guess p))
    InvT S Φ target r ∧ (∃ k, (negs S.F r.toFlip).length + 2 * k = todo.length) ∧
      ((negs S.F r.toFlip).length ≤ 1 →
        (todo.length % 2 = 0 → negs S.F r.toFlip = []) ∧
        (todo.length % 2 = 1 → ∃ q, negs S.F r.toFlip = [q])) := by
  intro r todo
  have h0 : InvT S Φ target { bonds := guess, toFlip := fun p => Int.fdiv (target p) (Φ guess p) } := by
    intro p _
    simp only
    rw [fdiv_pm _ _ (htpm p) (hgpm p)]
    rcases htpm p with h1 | h1 <;> rcases hgpm p with h2 | h2 <;> rw [h1, h2] <;> decide
  obtain ⟨h1, k1, hk1⟩ := adjacentPass_spec S hS Φ hΦ target (List.range nE) _ h0
  obtain ⟨h2, hk2⟩ := isolatedPass_spec S hS Φ hΦ target steps _ h1 hok
  have hlen : (negs S.F r.toFlip).length + 2 * (steps.length + k1) = todo.length := by
    have hk1' : (negs S.F (adjacentPass S (List.range nE)
        { bonds := guess, toFlip := fun p => Int.fdiv (target p) (Φ guess p) }).toFlip).length + 2 * k1 = todo.length := hk1
    show (negs S.F (isolatedPass _ steps).toFlip).length + 2 * (steps.length + k1) = _
    omega
  refine ⟨h2, ⟨steps.length + k1, hlen⟩, ?_⟩
  intro hle
  constructor
  · intro hev
    have : (negs S.F r.toFlip).length = 0 := by omega
    exact List.length_eq_zero_iff.mp this
  · intro hodd
    have : (negs S.F r.toFlip).length = 1 := by omega
    exact List.length_eq_one_iff.mp this

/-! ### the ground-state ansatz (translated from the source) and its parity on closed trivalent lattices -/

/-- the ansatz depends only on `n mod 4` … -/
theorem ansatz_mod4 (n : Int) (hn : 3 ≤ n) :
    Gen.ground_state_ansatz n = if n % 4 = 0 ∨ n % 4 = 3 then -1 else 1 := by
  unfold Gen.ground_state_ansatz Gen.pyPow
  have hd : Int.fdiv (-3 + n) 2 = (n - 3) / 2 := by
    rw [Int.fdiv_eq_ediv_of_nonneg _ (by omega)]; congr 1; omega
  rw [hd]
  obtain ⟨k, hk⟩ : ∃ k : Nat, ((n - 3) / 2 : Int) = k := ⟨((n - 3) / 2).toNat, by omega⟩
  rw [hk, Int.toNat_natCast]
  have hpar : (n % 4 = 0 ∨ n % 4 = 3) ↔ k % 2 = 0 := by omega
  rcases Nat.mod_two_eq_zero_or_one k with h | h
  · rw [if_pos (hpar.mpr h)]
    obtain ⟨j, rfl⟩ : ∃ j, k = 2 * j := ⟨k / 2, by omega⟩
    rw [Int.pow_mul]; simp [Int.one_pow]
  · rw [if_neg (fun hh => by have := hpar.mp hh; omega)]
    obtain ⟨j, rfl⟩ : ∃ j, k = 2 * j + 1 := ⟨k / 2, by omega⟩
    rw [Int.pow_succ, Int.pow_mul]; simp [Int.one_pow]

/-- … and is minus the sign table of the deprecated flux convention (both read from the source): in that
    convention the ansatz asks for `Π(u·d) = −1` on every plaquette, whatever its number of sides -/
theorem ansatz_eq_neg_sign_real (n : Nat) (hn : 3 ≤ n) :
    Gen.ground_state_ansatz (n : Int) = -(GenT.sign_real.getD (n % 4) 0) := by
  rw [ansatz_mod4 _ (by exact_mod_cast hn)]
  have h4 : n % 4 = 0 ∨ n % 4 = 1 ∨ n % 4 = 2 ∨ n % 4 = 3 := by omega
  rcases h4 with h | h | h | h <;> rw [h] <;> simp [GenT.sign_real] <;> omega

/-- in the deprecated convention the ansatz is realised iff the bare product is −1 on every plaquette -/
theorem ansatz_bare_product (sr : List Int) (u : Nat → Int) (w : List Dart) (hw : 3 ≤ w.length)
    (hsr : sr = GenT.sign_real) :
    fluxOld sr u w = Gen.ground_state_ansatz (w.length : Int) ↔ (w.map fun d => u d.1 * dirSign d).prod = -1 := by
  rw [ansatz_eq_neg_sign_real _ hw, hsr]
  unfold fluxOld
  have h4 : w.length % 4 = 0 ∨ w.length % 4 = 1 ∨ w.length % 4 = 2 ∨ w.length % 4 = 3 := by omega
  rcases h4 with h | h | h | h <;> rw [h] <;> simp [GenT.sign_real] <;> constructor <;> intro hh <;> linarith

/-- parity on a closed trivalent lattice: when the bare products of all `F` plaquettes multiply to `(−1)^E`
    (C05's global product law: every edge is traversed once in each direction) and `E = 3F` (Euler's formula
    on a trivalent torus, monitored on every input), the number of plaquettes whose bare product differs from
    −1 is even — so the ansatz is reached exactly -/
theorem ansatz_parity (bare : List Int) (hpm : ∀ x ∈ bare, x = 1 ∨ x = -1) (E : Nat) (hE : E = 3 * bare.length)
    (hglob : bare.prod = (-1) ^ E) : (bare.filter fun x => x != -1).length % 2 = 0 := by
  -- Π bare = (−1)^(number of −1 entries) and (−1)^E = (−1)^F
  have hcount : ∀ l : List Int, (∀ x ∈ l, x = 1 ∨ x = -1) → l.prod = (-1) ^ (l.length - (l.filter fun x => x != -1).length) ∧
      (l.filter fun x => x != -1).length ≤ l.length := by
    intro l hl
    induction l with
    | nil => simp
    | cons a t ih =>
      obtain ⟨ih1, ih2⟩ := ih (fun x hx => hl x (by simp [hx]))
      rcases hl a (by simp) with rfl | rfl
      · simp only [List.prod_cons, one_mul, List.length_cons]
        rw [List.filter_cons_of_pos (by decide)]
        simp only [List.length_cons]
        exact ⟨by rw [ih1]; congr 1; omega, by omega⟩
      · simp only [List.prod_cons, List.length_cons]
        rw [List.filter_cons_of_neg (by decide)]
        refine ⟨?_, by omega⟩
        rw [ih1, show t.length + 1 - (t.filter fun x => x != -1).length = (t.length - (t.filter fun x => x != -1).length) + 1 by omega,
          pow_succ]; ring
  obtain ⟨h1, h2⟩ := hcount bare hpm
  rw [h1, hE] at hglob
  -- compare parities of the two exponents
  by_contra hodd
  have hm : (bare.filter fun x => x != -1).length % 2 = 1 := by omega
  have e1 : ((-1 : Int) ^ (bare.length - (bare.filter fun x => x != -1).length)) * (-1) ^ (3 * bare.length) = 1 := by
    rw [hglob, ← pow_add]
    have : Even (3 * bare.length + 3 * bare.length) := ⟨3 * bare.length, rfl⟩
    exact this.neg_one_pow
  rw [← pow_add] at e1
  have hoddexp : Odd (bare.length - (bare.filter fun x => x != -1).length + 3 * bare.length) := by
    rw [Nat.odd_iff]; omega
  rw [hoddexp.neg_one_pow] at e1
  exact absurd e1 (by decide)

/-! ### non-vacuity: two hexagon-like plaquettes sharing edge 1 -/

def exS : Sys :=
  { F := 2
    pdarts := fun p => [[(1, false), (0, false)], [(0, true), (2, false)]].getD p []
    sides := fun e => [(some 0, some 1), (some 0, none), (some 1, none)].getD e (none, none) }

example : chainOK exS [0, 1] [0] = true := by decide
example : (List.range 2).map (fun p => flux (solve exS 3 (fun u p => flux u (exS.pdarts p)) (fun p => if p = 0 then -1 else 1) (fun _ => 1) []).bonds (exS.pdarts p))
    = [-1, 1] := by decide

end C06
