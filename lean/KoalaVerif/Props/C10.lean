import Mathlib.Tactic.IntervalCases
import Mathlib.Data.List.Nodup
import Mathlib.Tactic.NormNum
import Mathlib.Tactic.Zify
import Mathlib.Algebra.BigOperators.Group.List.Basic
import Mathlib.Data.List.Range
import Mathlib.Data.List.Perm.Subperm
import Mathlib.Data.List.Count
import KoalaVerif.Model.Gen10
import KoalaVerif.Generated.Kernels
import KoalaVerif.Generated.Tables
import Mathlib.Data.List.Basic
import Mathlib.Tactic.Ring

/-! # C10 — the built-in generators: index and crossing bookkeeping for every size

The theorems are stated about the kernels regenerated from `example_graphs.py` on every run
(`Gen.next_cell_number`, `Gen.crossing`, the two nested `next_direction`s) and hold for all grid sizes. -/

namespace C10
open Gen

/-! ### the executable model uses the translated kernels -/

theorem nextCell_eq_translated (nh nv n s0 s1 : Int) : G10.nextCell nh nv n s0 s1 = next_cell_number nh nv n s0 s1 := rfl

theorem crossing_eq_translated (nx ny n s0 s1 : Int) : G10.crossing nx ny n s0 s1 = crossing nx ny n s0 s1 := by
  unfold G10.crossing crossing b2i
  ext <;> simp only <;> split <;> simp_all

/-- the nested `next_direction` of `honeycomb_lattice` and of `hex_square_oct_lattice` are the same function -/
theorem honeycomb_next_direction_eq (nh nv n s0 s1 : Int) :
    honeycomb_next_direction nh nv n s0 s1 = next_cell_number nh nv n s0 s1 := rfl

theorem hso_next_direction_eq (c n s0 s1 : Int) : hso_next_direction c n s0 s1 = next_cell_number c c n s0 s1 := rfl

/-! ### the one-dimensional wrap lemma -/

theorem wrap_1d (m x s : Int) (hm : 0 < m) (hx0 : 0 ≤ x) (hx : x < m) (hs : s = -1 ∨ s = 0 ∨ s = 1) :
    x + s = Int.fmod (x + s) m + m * (b2i (decide (Int.fdiv (x + s) m ≠ Int.fdiv x m)) * s) := by
  have hxdiv : Int.fdiv x m = 0 := by
    rw [Int.fdiv_eq_ediv_of_nonneg _ (Int.le_of_lt hm)]; exact Int.ediv_eq_zero_of_lt hx0 hx
  rw [hxdiv, Int.fmod_eq_emod_of_nonneg _ (Int.le_of_lt hm), Int.fdiv_eq_ediv_of_nonneg _ (Int.le_of_lt hm)]
  have key : x + s = (x + s) % m + m * ((x + s) / m) := (Int.emod_add_mul_ediv (x+s) m).symm
  have hr := Int.emod_nonneg (x + s) (Int.ne_of_gt hm)
  have hr2 := Int.emod_lt_of_pos (x + s) hm
  have h1 : -1 ≤ (x + s) / m := by
    apply Int.le_ediv_of_mul_le hm; rcases hs with h | h | h <;> omega
  have h2 : (x + s) / m < 2 := by
    apply Int.ediv_lt_of_lt_mul hm; rcases hs with h | h | h <;> omega
  generalize (x + s) / m = q at *
  generalize (x + s) % m = r at *
  have hq : q = -1 ∨ q = 0 ∨ q = 1 := by omega
  rcases hq with h | h | h <;> subst h <;> rcases hs with h' | h' | h' <;> subst h' <;>
    simp [b2i] at key ⊢ <;> omega

/-! ### coordinates of the target cell -/

theorem fmod_nonneg_lt (a m : Int) (hm : 0 < m) : 0 ≤ Int.fmod a m ∧ Int.fmod a m < m := by
  rw [Int.fmod_eq_emod_of_nonneg _ (Int.le_of_lt hm)]
  exact ⟨Int.emod_nonneg _ (Int.ne_of_gt hm), Int.emod_lt_of_pos _ hm⟩

/-- column of the target cell: `(x + s0) mod n_x` -/
theorem next_cell_col (nx ny n s0 s1 : Int) (hnx : 0 < nx) :
    Int.fmod (next_cell_number nx ny n s0 s1) nx = Int.fmod (Int.fmod n nx + s0) nx := by
  unfold next_cell_number
  simp only [Int.fmod_eq_emod_of_nonneg _ (Int.le_of_lt hnx)]
  rw [Int.add_comm (_ * nx), Int.add_mul_emod_self_right, Int.emod_emod_of_dvd _ (Int.dvd_refl nx),
    Int.emod_add_emod]

/-- row of the target cell: `(y + s1) mod n_y` -/
theorem next_cell_row (nx ny n s0 s1 : Int) (hnx : 0 < nx) (hny : 0 < ny) :
    Int.fdiv (next_cell_number nx ny n s0 s1) nx = Int.fmod (Int.fdiv n nx + s1) ny := by
  unfold next_cell_number
  obtain ⟨h0, h1⟩ := fmod_nonneg_lt (n + s0) nx hnx
  rw [Int.fdiv_eq_ediv_of_nonneg _ (Int.le_of_lt hnx), Int.add_comm, Int.add_mul_ediv_right _ _ (Int.ne_of_gt hnx),
    Int.ediv_eq_zero_of_lt h0 h1, Int.zero_add]

/-- the target cell is a cell of the grid -/
theorem next_cell_range (nx ny n s0 s1 : Int) (hnx : 0 < nx) (hny : 0 < ny) :
    0 ≤ next_cell_number nx ny n s0 s1 ∧ next_cell_number nx ny n s0 s1 < nx * ny := by
  unfold next_cell_number
  obtain ⟨a0, a1⟩ := fmod_nonneg_lt (n + s0) nx hnx
  obtain ⟨b0, b1⟩ := fmod_nonneg_lt (Int.fdiv n nx + s1) ny hny
  constructor
  · have := Int.mul_nonneg b0 (Int.le_of_lt hnx); omega
  · have h : Int.fmod (Int.fdiv n nx + s1) ny + 1 ≤ ny := by omega
    have := Int.mul_le_mul_of_nonneg_right h (Int.le_of_lt hnx)
    rw [Int.add_mul, Int.one_mul] at this
    rw [Int.mul_comm nx ny]
    omega

/-- **C10.1 x-bookkeeping of every tiled edge**, for every grid size: the column of the target cell and the crossing
    flag account exactly for the shift (`x + s = x' + n_x·c_x`) -/
theorem crossing_consistent_x (nx ny n s0 s1 : Int) (hnx : 0 < nx) (hs : s0 = -1 ∨ s0 = 0 ∨ s0 = 1) :
    Int.fmod n nx + s0 = Int.fmod (next_cell_number nx ny n s0 s1) nx + nx * (crossing nx ny n s0 s1).1 := by
  obtain ⟨hx0, hx1⟩ := fmod_nonneg_lt n nx hnx
  have hc : (crossing nx ny n s0 s1).1 =
      b2i (decide (Int.fdiv (Int.fmod n nx + s0) nx ≠ Int.fdiv (Int.fmod n nx) nx)) * s0 := rfl
  rw [next_cell_col nx ny n s0 s1 hnx, hc]
  exact wrap_1d nx (Int.fmod n nx) s0 hnx hx0 hx1 hs

/-- **C10.1 y-bookkeeping** (`y + s = y' + n_y·c_y`) for every cell `0 ≤ n < n_x·n_y` -/
theorem crossing_consistent_y (nx ny n s0 s1 : Int) (hnx : 0 < nx) (hny : 0 < ny) (hn0 : 0 ≤ n) (hn : n < nx * ny)
    (hs : s1 = -1 ∨ s1 = 0 ∨ s1 = 1) :
    Int.fdiv n nx + s1 = Int.fdiv (next_cell_number nx ny n s0 s1) nx + ny * (crossing nx ny n s0 s1).2 := by
  have hy0 : 0 ≤ Int.fdiv n nx := by
    rw [Int.fdiv_eq_ediv_of_nonneg _ (Int.le_of_lt hnx)]; exact Int.ediv_nonneg hn0 (Int.le_of_lt hnx)
  have hy1 : Int.fdiv n nx < ny := by
    rw [Int.fdiv_eq_ediv_of_nonneg _ (Int.le_of_lt hnx)]
    exact Int.ediv_lt_of_lt_mul hnx (by rw [Int.mul_comm]; exact hn)
  have hc : (crossing nx ny n s0 s1).2 =
      b2i (decide (Int.fdiv (Int.fdiv n nx + s1) ny ≠ Int.fdiv (Int.fdiv n nx) ny)) * s1 := rfl
  rw [next_cell_row nx ny n s0 s1 hnx hny, hc]
  exact wrap_1d ny (Int.fdiv n nx) s1 hny hy0 hy1 hs

/-- crossing flags are 0 or the shift itself -/
theorem crossing_values (nx ny n s0 s1 : Int) :
    ((crossing nx ny n s0 s1).1 = 0 ∨ (crossing nx ny n s0 s1).1 = s0) ∧
    ((crossing nx ny n s0 s1).2 = 0 ∨ (crossing nx ny n s0 s1).2 = s1) := by
  unfold crossing b2i
  constructor <;> simp only <;> split <;> simp

/-- shifting by `s` and then by `−s` returns to the cell: translation by a fixed shift is a bijection of the
    cells, so every tiled unit cell receives each of its edge types exactly once -/
theorem next_cell_inverse (nx ny n s0 s1 : Int) (hnx : 0 < nx) (hny : 0 < ny) (hn0 : 0 ≤ n) (hn : n < nx * ny) :
    next_cell_number nx ny (next_cell_number nx ny n s0 s1) (-s0) (-s1) = n := by
  have hcol := next_cell_col nx ny n s0 s1 hnx
  have hrow := next_cell_row nx ny n s0 s1 hnx hny
  set m := next_cell_number nx ny n s0 s1 with hm
  have hy1 : Int.fdiv n nx < ny := by
    rw [Int.fdiv_eq_ediv_of_nonneg _ (Int.le_of_lt hnx)]
    exact Int.ediv_lt_of_lt_mul hnx (by rw [Int.mul_comm]; exact hn)
  have hy0 : 0 ≤ Int.fdiv n nx := by
    rw [Int.fdiv_eq_ediv_of_nonneg _ (Int.le_of_lt hnx)]; exact Int.ediv_nonneg hn0 (Int.le_of_lt hnx)
  show Int.fmod (Int.fdiv m nx + -s1) ny * nx + Int.fmod (m + -s0) nx = n
  have e1 : Int.fmod (Int.fdiv m nx + -s1) ny = Int.fdiv n nx := by
    rw [hrow]
    simp only [Int.fmod_eq_emod_of_nonneg _ (Int.le_of_lt hny)]
    rw [Int.emod_add_emod, Int.add_neg_cancel_right]
    exact Int.emod_eq_of_lt hy0 hy1
  have e2 : Int.fmod (m + -s0) nx = Int.fmod n nx := by
    have : Int.fmod (m + -s0) nx = Int.fmod (Int.fmod m nx + -s0) nx := by
      simp only [Int.fmod_eq_emod_of_nonneg _ (Int.le_of_lt hnx)]
      rw [Int.emod_add_emod]
    rw [this, hcol]
    simp only [Int.fmod_eq_emod_of_nonneg _ (Int.le_of_lt hnx)]
    rw [Int.emod_add_emod, Int.add_neg_cancel_right, Int.emod_emod_of_dvd _ (Int.dvd_refl nx)]
  rw [e1, e2, Int.fdiv_eq_ediv_of_nonneg _ (Int.le_of_lt hnx), Int.fmod_eq_emod_of_nonneg _ (Int.le_of_lt hnx)]
  rw [Int.mul_comm]
  exact Int.mul_ediv_add_emod n nx

/-! ### tile_unit_cell: counts and the shape of every tiled edge -/

/-- `n_x·n_y·|E|` edges (and as many crossings) -/
theorem tile_length (k : Nat) (ue : List (Nat × Nat)) (uc : List (Int × Int)) (nx ny : Nat) (h : ue.length = uc.length) :
    (G10.tile k ue uc nx ny).length = nx * ny * ue.length := by
  unfold G10.tile
  rw [List.length_flatMap]
  simp only [List.length_map, List.length_zip, h, Nat.min_self]
  rw [List.map_const', List.sum_replicate_nat]
  simp

/-- copy `p` of unit edge `(a, b)` with unit crossing `c` starts at `a + p·k`, ends in the translated cell, and
    carries the translated crossing -/
theorem mem_tile (k : Nat) (ue : List (Nat × Nat)) (uc : List (Int × Int)) (nx ny : Nat) (x : (Nat × Nat) × (Int × Int)) :
    x ∈ G10.tile k ue uc nx ny ↔ ∃ p, p < nx * ny ∧ ∃ ec ∈ ue.zip uc,
      x = ((ec.1.1 + p * k, ec.1.2 + k * (next_cell_number nx ny p ec.2.1 ec.2.2).toNat), crossing nx ny p ec.2.1 ec.2.2) := by
  unfold G10.tile G10.nc
  simp only [List.mem_flatMap, List.mem_range, List.mem_map, nextCell_eq_translated, crossing_eq_translated]
  constructor
  · rintro ⟨p, hp, ec, hec, rfl⟩; exact ⟨p, hp, ec, hec, rfl⟩
  · rintro ⟨p, hp, ec, hec, rfl⟩; exact ⟨p, hp, ec, hec, rfl⟩

/-- every tiled edge stays inside the `n_x·n_y·k` vertices -/
theorem tile_in_range (k : Nat) (ue : List (Nat × Nat)) (uc : List (Int × Int)) (nx ny : Nat) (hnx : 0 < nx) (hny : 0 < ny)
    (hue : ∀ e ∈ ue, e.1 < k ∧ e.2 < k) (x : (Nat × Nat) × (Int × Int)) (hx : x ∈ G10.tile k ue uc nx ny) :
    x.1.1 < nx * ny * k ∧ x.1.2 < nx * ny * k := by
  obtain ⟨p, hp, ec, hec, rfl⟩ := (mem_tile k ue uc nx ny x).mp hx
  obtain ⟨h1, h2⟩ := hue ec.1 (List.of_mem_zip hec).1
  obtain ⟨r0, r1⟩ := next_cell_range nx ny p ec.2.1 ec.2.2 (by exact_mod_cast hnx) (by exact_mod_cast hny)
  have hq : (next_cell_number nx ny p ec.2.1 ec.2.2).toNat < nx * ny := by
    have : ((next_cell_number nx ny p ec.2.1 ec.2.2).toNat : Int) < ((nx * ny : Nat) : Int) := by
      rw [Int.toNat_of_nonneg r0]; push_cast; exact r1
    exact_mod_cast this
  constructor
  · simp only
    calc ec.1.1 + p * k < k + p * k := by omega
      _ = (p + 1) * k := by ring
      _ ≤ nx * ny * k := Nat.mul_le_mul_right k hp
  · simp only
    calc ec.1.2 + k * (next_cell_number nx ny p ec.2.1 ec.2.2).toNat < k + k * (next_cell_number nx ny p ec.2.1 ec.2.2).toNat := by omega
      _ = ((next_cell_number nx ny p ec.2.1 ec.2.2).toNat + 1) * k := by ring
      _ ≤ nx * ny * k := Nat.mul_le_mul_right k hq

/-! ### instances: the unit cells in the source -/

/-- the tri-non lattice is the tiling of the unit cell written in the source -/
example : (G10.tile 4 GenT.trinon_edges GenT.trinon_crossing 2 3).length = 2 * 3 * 6 := by decide
example : G10.nVertical 2 = 1 ∧ G10.nVertical 3 = 2 ∧ G10.nVertical 16 = 9 := by decide
example : crossing 3 2 2 1 0 = (1, 0) ∧ next_cell_number 3 2 2 1 0 = 0 ∧ crossing 3 2 0 (-1) (-1) = (-1, -1) := by decide

/-! ### the honeycomb generator is trivalent for every size -/

section Honeycomb
open G10

/-- number of edge ends at vertex `v` -/
def degIn (es : ECs) (v : Nat) : Nat := (es.map (·.1.1)).count v + (es.map (·.1.2)).count v

theorem degIn_append (a b : ECs) (v : Nat) : degIn (a ++ b) v = degIn a v + degIn b v := by
  unfold degIn; simp only [List.map_append, List.count_append]; omega

/-- translation by a fixed shift permutes the cells -/
theorem nc_perm (nh nv : Nat) (hh : 0 < nh) (hv : 0 < nv) (s0 s1 : Int) :
    ((cells nh nv).map fun n => nc nh nv n s0 s1).Perm (cells nh nv) := by
  have hH : (0 : Int) < nh := by exact_mod_cast hh
  have hV : (0 : Int) < nv := by exact_mod_cast hv
  have hlt : ∀ n, nc nh nv n s0 s1 < nh * nv := by
    intro n
    have := (next_cell_range (nh : Int) nv n s0 s1 hH hV)
    unfold nc
    rw [nextCell_eq_translated]
    have h2 := this.2
    have h1 := this.1
    have : ((Gen.next_cell_number (↑nh) (↑nv) (↑n) s0 s1).toNat : Int) < ((nh * nv : Nat) : Int) := by
      rw [Int.toNat_of_nonneg h1]; push_cast; exact h2
    exact_mod_cast this
  have hinj : ∀ a ∈ cells nh nv, ∀ b ∈ cells nh nv, nc nh nv a s0 s1 = nc nh nv b s0 s1 → a = b := by
    intro a ha b hb hab
    unfold cells at ha hb
    rw [List.mem_range] at ha hb
    have ha' : ((a : Nat) : Int) < (nh : Int) * nv := by exact_mod_cast ha
    have hb' : ((b : Nat) : Int) < (nh : Int) * nv := by exact_mod_cast hb
    have ia := next_cell_inverse (nh : Int) nv a s0 s1 hH hV (by exact_mod_cast Nat.zero_le a) ha'
    have ib := next_cell_inverse (nh : Int) nv b s0 s1 hH hV (by exact_mod_cast Nat.zero_le b) hb'
    have hz : nextCell nh nv a s0 s1 = nextCell nh nv b s0 s1 := by
      have ra := (next_cell_range (nh : Int) nv a s0 s1 hH hV).1
      have rb := (next_cell_range (nh : Int) nv b s0 s1 hH hV).1
      unfold nc at hab
      rw [nextCell_eq_translated, nextCell_eq_translated] at hab ⊢
      have := congrArg (fun x : Nat => (x : Int)) hab
      simp only [Int.toNat_of_nonneg ra, Int.toNat_of_nonneg rb] at this
      exact this
    rw [nextCell_eq_translated, nextCell_eq_translated] at hz
    rw [hz] at ia
    have : (a : Int) = b := ia.symm.trans ib
    exact_mod_cast this
  have hnd : ((cells nh nv).map fun n => nc nh nv n s0 s1).Nodup :=
    (List.nodup_map_iff_inj_on (List.nodup_range)).mpr hinj
  have hsub : ((cells nh nv).map fun n => nc nh nv n s0 s1) ⊆ cells nh nv := by
    intro x hx
    obtain ⟨n, _, rfl⟩ := List.mem_map.mp hx
    exact List.mem_range.mpr (hlt n)
  exact (hnd.subperm hsub).perm_of_length_le (by simp [cells])

theorem count_cells (nh nv n0 : Nat) (h : n0 < nh * nv) : (cells nh nv).count n0 = 1 :=
  List.count_eq_one_of_mem List.nodup_range (List.mem_range.mpr h)

/-- the number of cells `n` with `f n = v`, for `f` injective with a prescribed preimage -/
theorem count_map_affine (l : List Nat) (a b v : Nat) (ha : 0 < a) :
    (l.map fun n => b + a * n).count v = if b ≤ v ∧ (v - b) % a = 0 then l.count ((v - b) / a) else 0 := by
  induction l with
  | nil => simp
  | cons x xs ih =>
    simp only [List.map_cons, List.count_cons, ih]
    by_cases hc : b ≤ v ∧ (v - b) % a = 0
    · simp only [hc, and_self, if_true]
      congr 1
      obtain ⟨h1, h2⟩ := hc
      have hdiv : a * ((v - b) / a) = v - b := Nat.mul_div_cancel' (Nat.dvd_of_mod_eq_zero h2)
      by_cases hx : b + a * x = v
      · have hxe : x = (v - b) / a := by
          have : a * x = v - b := by omega
          rw [← this, Nat.mul_div_cancel_left _ ha]
        have e1 : (b + a * x == v) = true := by simpa using hx
        have e2 : (x == (v - b) / a) = true := by simpa using hxe
        rw [if_pos e1, if_pos e2]
      · have hxe : ¬ (x = (v - b) / a) := by
          intro h; apply hx; rw [h, hdiv]; omega
        have e1 : ¬ ((b + a * x == v) = true) := by simpa using hx
        have e2 : ¬ ((x == (v - b) / a) = true) := by simpa using hxe
        rw [if_neg e1, if_neg e2]
    · simp only [hc, if_false, Nat.zero_add]
      have : ¬ (b + a * x = v) := by
        intro h; apply hc
        refine ⟨by omega, ?_⟩
        have : v - b = a * x := by omega
        rw [this, Nat.mul_mod_right]
      simp [this]


theorem count_flatMap3 (l : List Nat) (f g h : Nat → Nat) (v : Nat) :
    (l.flatMap fun n => [f n, g n, h n]).count v = (l.map f).count v + (l.map g).count v + (l.map h).count v := by
  induction l with
  | nil => simp
  | cons x xs ih =>
    simp only [List.flatMap_cons, List.count_append, List.map_cons, List.count_cons, ih, List.count_nil]
    omega

/-- ends at vertex `4q + k` contributed by a family whose ends are `b + 4·(cell)`, the cells running through a
    permutation of all cells: one if `b = k`, none otherwise -/
theorem cnt (nh nv : Nat) (l : List Nat) (hl : l.Perm (cells nh nv)) (b q k : Nat) (hq : q < nh * nv) (hk : k < 4) (hb : b < 4) :
    (l.map fun n => b + 4 * n).count (4 * q + k) = if b = k then 1 else 0 := by
  rw [count_map_affine l 4 b (4 * q + k) (by decide)]
  by_cases hbk : b = k
  · subst hbk
    have h1 : b ≤ 4 * q + b ∧ (4 * q + b - b) % 4 = 0 := ⟨by omega, by omega⟩
    have h2 : (4 * q + b - b) / 4 = q := by omega
    rw [if_pos h1, h2, if_pos rfl, hl.count_eq, count_cells nh nv q hq]
  · have h1 : ¬ (b ≤ 4 * q + k ∧ (4 * q + k - b) % 4 = 0) := by
      rintro ⟨h, h'⟩; omega
    rw [if_neg h1, if_neg hbk]

/-- **C10 (honeycomb, every size)**: every one of the `4·n_h·n_v` vertices of `honeycomb_lattice` has exactly three edge
    ends — the lattice is trivalent for all sizes -/
theorem honeycomb_trivalent (nh nv : Nat) (hh : 0 < nh) (hv : 0 < nv) (v : Nat) (hvlt : v < 4 * (nh * nv)) :
    degIn (honeycomb nh nv) v = 3 := by
  obtain ⟨q, k, hk, rfl⟩ : ∃ q k, k < 4 ∧ v = 4 * q + k := ⟨v / 4, v % 4, Nat.mod_lt _ (by decide), by omega⟩
  have hq : q < nh * nv := by omega
  have pid : (cells nh nv).Perm (cells nh nv) := List.Perm.refl _
  have p10 := nc_perm nh nv hh hv 1 0
  have p01 := nc_perm nh nv hh hv 0 1
  have p11 := nc_perm nh nv hh hv 1 1
  unfold honeycomb
  simp only [degIn_append]
  unfold degIn
  simp only [List.map_flatMap, List.map_map, List.map_cons, List.map_nil, Function.comp_def]
  rw [count_flatMap3, count_flatMap3]
  -- bring every family into the form `b + 4 * (cell)`
  have a1 : ((cells nh nv).map fun n => 4 * n) = (cells nh nv).map fun n => 0 + 4 * n := by
    apply List.map_congr_left; intro n _; omega
  have a2 : ((cells nh nv).map fun n => 4 * n + 2) = (cells nh nv).map fun n => 2 + 4 * n := by
    apply List.map_congr_left; intro n _; omega
  have a3 : ((cells nh nv).map fun n => 4 * n + 1) = (cells nh nv).map fun n => 1 + 4 * n := by
    apply List.map_congr_left; intro n _; omega
  have a4 : ((cells nh nv).map fun n => 4 * n + 3) = (cells nh nv).map fun n => 3 + 4 * n := by
    apply List.map_congr_left; intro n _; omega
  have b1 : ((cells nh nv).map fun n => 1 + 4 * nc nh nv n 1 0) = ((cells nh nv).map fun n => nc nh nv n 1 0).map fun m => 1 + 4 * m := by
    rw [List.map_map]; rfl
  have c1 : ((cells nh nv).map fun n => 4 * nc nh nv n 0 1) = ((cells nh nv).map fun n => nc nh nv n 0 1).map fun m => 0 + 4 * m := by
    rw [List.map_map]; apply List.map_congr_left; intro n _; simp
  have d1 : ((cells nh nv).map fun n => 4 * nc nh nv n 1 1) = ((cells nh nv).map fun n => nc nh nv n 1 1).map fun m => 0 + 4 * m := by
    rw [List.map_map]; apply List.map_congr_left; intro n _; simp
  rw [a1, a2, a3, a4, b1, c1, d1]
  rw [cnt nh nv _ pid 0 q k hq hk (by decide), cnt nh nv _ pid 2 q k hq hk (by decide), cnt nh nv _ pid 1 q k hq hk (by decide),
    cnt nh nv _ pid 3 q k hq hk (by decide), cnt nh nv _ p10 1 q k hq hk (by decide), cnt nh nv _ p01 0 q k hq hk (by decide),
    cnt nh nv _ p11 0 q k hq hk (by decide)]
  interval_cases k <;> simp

theorem count_flatMap6 (l : List Nat) (f1 f2 f3 f4 f5 f6 : Nat → Nat) (v : Nat) :
    (l.flatMap fun n => [f1 n, f2 n, f3 n, f4 n, f5 n, f6 n]).count v
      = (l.map f1).count v + (l.map f2).count v + (l.map f3).count v + (l.map f4).count v + (l.map f5).count v + (l.map f6).count v := by
  induction l with
  | nil => simp
  | cons x xs ih =>
    simp only [List.flatMap_cons, List.count_append, List.map_cons, List.count_cons, ih, List.count_nil]
    omega

/-- as `cnt`, for six sites per cell -/
theorem cnt6 (n : Nat) (l : List Nat) (hl : l.Perm (cells n n)) (b q k : Nat) (hq : q < n * n) (hk : k < 6) (hb : b < 6) :
    (l.map fun c => b + 6 * c).count (6 * q + k) = if b = k then 1 else 0 := by
  rw [count_map_affine l 6 b (6 * q + k) (by decide)]
  by_cases hbk : b = k
  · subst hbk
    have h1 : b ≤ 6 * q + b ∧ (6 * q + b - b) % 6 = 0 := ⟨by omega, by omega⟩
    have h2 : (6 * q + b - b) / 6 = q := by omega
    rw [if_pos h1, h2, if_pos rfl, hl.count_eq, count_cells n n q hq]
  · have h1 : ¬ (b ≤ 6 * q + k ∧ (6 * q + k - b) % 6 = 0) := by
      rintro ⟨h, h'⟩; omega
    rw [if_neg h1, if_neg hbk]

/-- **C10 (hex-square-oct, every size)**: every one of the `6·n²` vertices of `hex_square_oct_lattice(n)` has exactly three
    edge ends -/
theorem hso_trivalent (n : Nat) (hn : 0 < n) (v : Nat) (hvlt : v < 6 * (n * n)) : degIn (hso n) v = 3 := by
  obtain ⟨q, k, hk, rfl⟩ : ∃ q k, k < 6 ∧ v = 6 * q + k := ⟨v / 6, v % 6, Nat.mod_lt _ (by decide), by omega⟩
  have hq : q < n * n := by omega
  have pid : (cells n n).Perm (cells n n) := List.Perm.refl _
  have p10 := nc_perm n n hn hn 1 0
  have p01 := nc_perm n n hn hn 0 1
  unfold hso
  simp only [degIn_append]
  unfold degIn
  simp only [List.map_flatMap, List.map_map, List.map_cons, List.map_nil, Function.comp_def]
  rw [count_flatMap6, count_flatMap6]
  have e0 : ((cells n n).map fun c => 0 + 6 * c) = (cells n n).map fun c => 0 + 6 * c := rfl
  have n2 : ((cells n n).map fun c => 2 + 6 * nc n n c 1 0) = ((cells n n).map fun c => nc n n c 1 0).map fun m => 2 + 6 * m := by
    rw [List.map_map]; rfl
  have n1 : ((cells n n).map fun c => 1 + 6 * nc n n c 1 0) = ((cells n n).map fun c => nc n n c 1 0).map fun m => 1 + 6 * m := by
    rw [List.map_map]; rfl
  have n0 : ((cells n n).map fun c => 6 * nc n n c 0 1) = ((cells n n).map fun c => nc n n c 0 1).map fun m => 0 + 6 * m := by
    rw [List.map_map]; apply List.map_congr_left; intro c _; simp
  rw [n2, n1, n0]
  simp only [cnt6 n _ pid _ q k hq hk (by decide : 0 < 6), cnt6 n _ pid _ q k hq hk (by decide : 1 < 6), cnt6 n _ pid _ q k hq hk (by decide : 2 < 6),
    cnt6 n _ pid _ q k hq hk (by decide : 3 < 6), cnt6 n _ pid _ q k hq hk (by decide : 4 < 6), cnt6 n _ pid _ q k hq hk (by decide : 5 < 6),
    cnt6 n _ p10 2 q k hq hk (by decide), cnt6 n _ p10 1 q k hq hk (by decide), cnt6 n _ p01 0 q k hq hk (by decide)]
  interval_cases k <;> simp

end Honeycomb

section Tiling
open G10


/-! ### tiling keeps the coordination of every site of the unit cell -/

/-- the tiled copies of one unit edge `ec = ((a, b), (s0, s1))` -/
def tileOne (k : Nat) (nx ny : Nat) (ec : (Nat × Nat) × (Int × Int)) : ECs :=
  (List.range (nx * ny)).map fun p => ((ec.1.1 + p * k, ec.1.2 + k * nc nx ny p ec.2.1 ec.2.2), G10.crossing nx ny p ec.2.1 ec.2.2)

theorem degIn_nil (v : Nat) : degIn [] v = 0 := by simp [degIn]

/-- counting ends does not care in which order the cells and the unit edges are run through -/
theorem degIn_tile_cons (k nx ny : Nat) (ec : (Nat × Nat) × (Int × Int)) (rest : List ((Nat × Nat) × (Int × Int))) (v : Nat) :
    degIn ((List.range (nx * ny)).flatMap fun p => (ec :: rest).map fun ec =>
        ((ec.1.1 + p * k, ec.1.2 + k * nc nx ny p ec.2.1 ec.2.2), G10.crossing nx ny p ec.2.1 ec.2.2)) v
      = degIn (tileOne k nx ny ec) v + degIn ((List.range (nx * ny)).flatMap fun p => rest.map fun ec =>
        ((ec.1.1 + p * k, ec.1.2 + k * nc nx ny p ec.2.1 ec.2.2), G10.crossing nx ny p ec.2.1 ec.2.2)) v := by
  unfold tileOne degIn
  generalize List.range (nx * ny) = l
  induction l with
  | nil => simp
  | cons p ps ih =>
    simp only [List.flatMap_cons, List.map_cons, List.map_append, List.count_append, List.count_cons] at ih ⊢
    omega

theorem degIn_tile (k nx ny : Nat) (E : List ((Nat × Nat) × (Int × Int))) (v : Nat) :
    degIn ((List.range (nx * ny)).flatMap fun p => E.map fun ec =>
        ((ec.1.1 + p * k, ec.1.2 + k * nc nx ny p ec.2.1 ec.2.2), G10.crossing nx ny p ec.2.1 ec.2.2)) v
      = (E.map fun ec => degIn (tileOne k nx ny ec) v).sum := by
  induction E with
  | nil =>
    have : ∀ l : List Nat, (l.flatMap fun _ => ([] : ECs)) = [] := by
      intro l; induction l <;> simp_all
    simp [degIn, this]
  | cons ec rest ih =>
    rw [degIn_tile_cons, ih]; simp

/-- the copies of one unit edge contribute one end at site `s` of cell `q` for each of its two ends that is site `s` -/
theorem degIn_tileOne (k nx ny : Nat) (hk : 0 < k) (hx : 0 < nx) (hy : 0 < ny) (ec : (Nat × Nat) × (Int × Int))
    (ha : ec.1.1 < k) (hb : ec.1.2 < k) (s q : Nat) (hs : s < k) (hq : q < nx * ny) :
    degIn (tileOne k nx ny ec) (s + k * q) = (if ec.1.1 = s then 1 else 0) + (if ec.1.2 = s then 1 else 0) := by
  unfold tileOne degIn
  simp only [List.map_map, Function.comp_def]
  have e1 : ((List.range (nx * ny)).map fun p => ec.1.1 + p * k) = (cells nx ny).map fun p => ec.1.1 + k * p := by
    apply List.map_congr_left; intro p _; rw [Nat.mul_comm]
  have e2 : ((List.range (nx * ny)).map fun p => ec.1.2 + k * nc nx ny p ec.2.1 ec.2.2)
      = ((cells nx ny).map fun p => nc nx ny p ec.2.1 ec.2.2).map fun m => ec.1.2 + k * m := by
    rw [List.map_map]; rfl
  rw [e1, e2, count_map_affine _ k _ _ hk, count_map_affine _ k _ _ hk]
  have key : ∀ a, a < k → ((a ≤ s + k * q ∧ (s + k * q - a) % k = 0) ↔ a = s) := by
    intro a hak
    constructor
    · rintro ⟨h1, h2⟩
      by_contra hne
      rcases Nat.lt_or_gt_of_ne hne with h | h
      · have : (s + k * q - a) = (s - a) + k * q := by omega
        rw [this, Nat.add_mul_mod_self_left] at h2
        have : (s - a) % k = s - a := Nat.mod_eq_of_lt (by omega)
        omega
      · -- a > s: then q ≥ 1 and s + k q − a = (k − (a − s)) + k (q − 1)
        have hq1 : 1 ≤ q := by
          by_contra hq0
          have : q = 0 := by omega
          subst this; simp at h1; omega
        have : (s + k * q - a) = (k - (a - s)) + k * (q - 1) := by
          have : k * q = k + k * (q - 1) := by
            have : q = 1 + (q - 1) := by omega
            calc k * q = k * (1 + (q - 1)) := by rw [← this]
              _ = k + k * (q - 1) := by rw [Nat.mul_add, Nat.mul_one]
          omega
        rw [this, Nat.add_mul_mod_self_left] at h2
        have : (k - (a - s)) % k = k - (a - s) := Nat.mod_eq_of_lt (by omega)
        omega
    · rintro rfl
      exact ⟨by omega, by simp⟩
  have hdiv : (s + k * q - s) / k = q := by
    rw [Nat.add_sub_cancel_left, Nat.mul_div_cancel_left _ hk]
  congr 1
  · by_cases h : ec.1.1 = s
    · rw [if_pos ((key _ ha).mpr h), if_pos h, h, hdiv]
      exact count_cells nx ny q hq
    · rw [if_neg (fun hh => h ((key _ ha).mp hh)), if_neg h]
  · by_cases h : ec.1.2 = s
    · rw [if_pos ((key _ hb).mpr h), if_pos h, h, hdiv, (nc_perm nx ny hx hy _ _).count_eq]
      exact count_cells nx ny q hq
    · rw [if_neg (fun hh => h ((key _ hb).mp hh)), if_neg h]

/-- **C10 (tile_unit_cell, every unit cell, every tiling)**: site `s` of every one of the `n_x·n_y` copies has exactly the
    coordination it has in the unit cell: the number of unit edges starting at `s` plus the number ending at `s` -/
theorem tile_degree (k : Nat) (ue : List (Nat × Nat)) (uc : List (Int × Int)) (nx ny : Nat) (hk : 0 < k) (hx : 0 < nx) (hy : 0 < ny)
    (hends : ∀ e ∈ ue, e.1 < k ∧ e.2 < k) (s q : Nat) (hs : s < k) (hq : q < nx * ny) :
    degIn (tile k ue uc nx ny) (s + k * q)
      = ((ue.zip uc).map fun ec => (if ec.1.1 = s then 1 else 0) + (if ec.1.2 = s then 1 else 0)).sum := by
  unfold tile
  rw [degIn_tile]
  congr 1
  apply List.map_congr_left
  intro ec hec
  have hm : ec.1 ∈ ue := (List.of_mem_zip hec).1
  exact degIn_tileOne k nx ny hk hx hy ec (hends _ hm).1 (hends _ hm).2 s q hs hq


/-- **C10 (tri-non, every tiling)**: with the unit-cell tables read from `generators/tri_non.py` on this run, every one of the
    `4·n_x·n_y` vertices of `tri_non_lattice(n_x, n_y)` has exactly three edge ends -/
theorem trinon_trivalent (nx ny : Nat) (hx : 0 < nx) (hy : 0 < ny) (v : Nat) (hv : v < 4 * (nx * ny)) :
    degIn (tile 4 GenT.trinon_edges GenT.trinon_crossing nx ny) v = 3 := by
  have hv' : v = v % 4 + 4 * (v / 4) := (Nat.mod_add_div v 4).symm
  rw [hv', tile_degree 4 GenT.trinon_edges GenT.trinon_crossing nx ny (by omega) hx hy (by decide) (v % 4) (v / 4) (Nat.mod_lt _ (by omega)) (by omega)]
  have h4 : v % 4 < 4 := Nat.mod_lt _ (by omega)
  generalize v % 4 = s at h4
  interval_cases s <;> decide

example : degIn (tile 4 GenT.trinon_edges GenT.trinon_crossing 2 3) 17 = 3 := by decide

end Tiling

section HoneycombColouring
open G10

abbrev CE := ((Nat × Nat) × (Int × Int)) × Nat

/-- the edges of `honeycomb_lattice` paired with the colours of the supplied colouring, family by family -/
def honeycombColoured (nh nv : Nat) : List CE :=
  let cs := cells nh nv
  (cs.flatMap fun n => [(((4 * n, 4 * n + 1), (0, 0)), 0), (((4 * n + 2, 4 * n + 1), (0, 0)), 2), (((4 * n + 2, 4 * n + 3), ((0 : Int), (0 : Int))), 0)]) ++
  ((cs.map fun n => (((2 + 4 * n, 1 + 4 * nc nh nv n 1 0), ((if lastCol nh n then 1 else 0), (0 : Int))), 1)) ++
  (cs.map fun n => (((4 * nc nh nv n 0 1, 3 + 4 * n), ((0 : Int), (if lastRow nh nv n then -1 else 0))), 1))) ++
  (cs.map fun n => (((4 * nc nh nv n 1 1, 3 + 4 * n), ((if lastCol nh n then -1 else 0), (if lastRow nh nv n then -1 else 0))), 2))

theorem zip_flatMap3 {α β : Type} (l : List Nat) (f1 f2 f3 : Nat → α) (c1 c2 c3 : β) :
    (l.flatMap fun n => [f1 n, f2 n, f3 n]).zip (l.flatMap fun _ => [c1, c2, c3])
      = l.flatMap fun n => [(f1 n, c1), (f2 n, c2), (f3 n, c3)] := by
  induction l with
  | nil => simp
  | cons x xs ih => simp [List.flatMap_cons, ih]

theorem zip_map_pair11 {α : Type} (l : List Nat) (f g : Nat → α) (c : Nat) :
    (l.map f ++ l.map g).zip (l.flatMap fun _ => [c, c]) = (l.map fun n => (f n, c)) ++ (l.map fun n => (g n, c)) := by
  have hrep : ∀ m : List Nat, (m.flatMap fun _ => [c, c]) = List.replicate (2 * m.length) c := by
    intro m
    induction m with
    | nil => simp
    | cons x xs ih =>
      rw [List.flatMap_cons, ih, List.length_cons, Nat.mul_succ, Nat.add_comm, List.replicate_add]
      rfl
  have hz : ∀ (m : List α) (k : Nat), m.length ≤ k → m.zip (List.replicate k c) = m.map fun a => (a, c) := by
    intro m
    induction m with
    | nil => intro k _; simp
    | cons a as ih =>
      intro k hk
      obtain ⟨k', rfl⟩ : ∃ k', k = k' + 1 := ⟨k - 1, by simp at hk; omega⟩
      rw [List.replicate_succ, List.zip_cons_cons, ih k' (by simp at hk; omega)]
      rfl
  rw [hrep, hz _ _ (by simp; omega)]
  simp [List.map_append, List.map_map, Function.comp_def]

/-- the zip of the generated edge list with the generated colour list is the family-wise pairing -/
theorem honeycomb_zip (nh nv : Nat) : (honeycomb nh nv).zip (honeycombColouring nh nv) = honeycombColoured nh nv := by
  unfold honeycomb honeycombColouring honeycombColoured
  simp only []
  rw [List.append_assoc, List.append_assoc, List.append_assoc, List.append_assoc]
  rw [List.zip_append (by simp)]
  rw [← List.append_assoc (List.map _ _) (List.map _ _) (List.map _ _)]
  rw [List.zip_append (by simp; omega)]
  rw [zip_flatMap3, zip_map_pair11]
  congr 1
  congr 1
  generalize cells nh nv = l
  induction l with
  | nil => simp
  | cons x xs ih => simp only [List.map_cons, List.zip_cons_cons, ih]

/-- the ends of coloured edges, coded as `3·vertex + colour` -/
def colEnds (zs : List CE) : List Nat := (zs.map fun z => 3 * z.1.1.1 + z.2) ++ (zs.map fun z => 3 * z.1.1.2 + z.2)

theorem colEnds_append (a b : List CE) (w : Nat) : (colEnds (a ++ b)).count w = (colEnds a).count w + (colEnds b).count w := by
  unfold colEnds; simp only [List.map_append, List.count_append]; omega

/-- the code count is the number of edge ends at `v` coloured `k` -/
theorem colEnds_count (zs : List CE) (hc : ∀ z ∈ zs, z.2 < 3) (v k : Nat) (hk : k < 3) :
    (colEnds zs).count (3 * v + k)
      = zs.countP (fun z => decide (z.1.1.1 = v ∧ z.2 = k)) + zs.countP (fun z => decide (z.1.1.2 = v ∧ z.2 = k)) := by
  unfold colEnds
  rw [List.count_append]
  congr 1
  · rw [List.count_eq_countP, List.countP_map]
    apply List.countP_congr
    intro z hz
    have := hc z hz
    simp only [Function.comp, beq_iff_eq, decide_eq_true_eq]
    omega
  · rw [List.count_eq_countP, List.countP_map]
    apply List.countP_congr
    intro z hz
    have := hc z hz
    simp only [Function.comp, beq_iff_eq, decide_eq_true_eq]
    omega

theorem cnt12 (nh nv : Nat) (l : List Nat) (hl : l.Perm (cells nh nv)) (b q k : Nat) (hq : q < nh * nv) (hk : k < 12) (hb : b < 12) :
    (l.map fun n => b + 12 * n).count (12 * q + k) = if b = k then 1 else 0 := by
  rw [count_map_affine l 12 b (12 * q + k) (by decide)]
  by_cases hbk : b = k
  · subst hbk
    have h1 : b ≤ 12 * q + b ∧ (12 * q + b - b) % 12 = 0 := ⟨by omega, by omega⟩
    have h2 : (12 * q + b - b) / 12 = q := by omega
    rw [if_pos h1, h2, if_pos rfl, hl.count_eq, count_cells nh nv q hq]
  · have h1 : ¬ (b ≤ 12 * q + k ∧ (12 * q + k - b) % 12 = 0) := by
      rintro ⟨h, h'⟩; omega
    rw [if_neg h1, if_neg hbk]

theorem honeycombColoured_codes (nh nv : Nat) (hh : 0 < nh) (hv : 0 < nv) (w : Nat) (hw : w < 12 * (nh * nv)) :
    (colEnds (honeycombColoured nh nv)).count w = 1 := by
  obtain ⟨q, k, hk, rfl⟩ : ∃ q k, k < 12 ∧ w = 12 * q + k := ⟨w / 12, w % 12, Nat.mod_lt _ (by decide), by omega⟩
  have hq : q < nh * nv := by omega
  have pid : (cells nh nv).Perm (cells nh nv) := List.Perm.refl _
  have p10 := nc_perm nh nv hh hv 1 0
  have p01 := nc_perm nh nv hh hv 0 1
  have p11 := nc_perm nh nv hh hv 1 1
  unfold honeycombColoured
  simp only [colEnds_append]
  unfold colEnds
  simp only [List.map_flatMap, List.map_map, List.map_cons, List.map_nil, Function.comp_def, List.count_append]
  rw [count_flatMap3, count_flatMap3]
  have a1 : ((cells nh nv).map fun n => 3 * (4 * n) + 0) = (cells nh nv).map fun n => 0 + 12 * n := by
    apply List.map_congr_left; intro n _; omega
  have a2 : ((cells nh nv).map fun n => 3 * (4 * n + 2) + 2) = (cells nh nv).map fun n => 8 + 12 * n := by
    apply List.map_congr_left; intro n _; omega
  have a3 : ((cells nh nv).map fun n => 3 * (4 * n + 2) + 0) = (cells nh nv).map fun n => 6 + 12 * n := by
    apply List.map_congr_left; intro n _; omega
  have a4 : ((cells nh nv).map fun n => 3 * (4 * n + 1) + 0) = (cells nh nv).map fun n => 3 + 12 * n := by
    apply List.map_congr_left; intro n _; omega
  have a5 : ((cells nh nv).map fun n => 3 * (4 * n + 1) + 2) = (cells nh nv).map fun n => 5 + 12 * n := by
    apply List.map_congr_left; intro n _; omega
  have a6 : ((cells nh nv).map fun n => 3 * (4 * n + 3) + 0) = (cells nh nv).map fun n => 9 + 12 * n := by
    apply List.map_congr_left; intro n _; omega
  have a7 : ((cells nh nv).map fun n => 3 * (2 + 4 * n) + 1) = (cells nh nv).map fun n => 7 + 12 * n := by
    apply List.map_congr_left; intro n _; omega
  have a8 : ((cells nh nv).map fun n => 3 * (3 + 4 * n) + 1) = (cells nh nv).map fun n => 10 + 12 * n := by
    apply List.map_congr_left; intro n _; omega
  have a9 : ((cells nh nv).map fun n => 3 * (3 + 4 * n) + 2) = (cells nh nv).map fun n => 11 + 12 * n := by
    apply List.map_congr_left; intro n _; omega
  have b1 : ((cells nh nv).map fun n => 3 * (1 + 4 * nc nh nv n 1 0) + 1) = ((cells nh nv).map fun n => nc nh nv n 1 0).map fun m => 4 + 12 * m := by
    rw [List.map_map]; apply List.map_congr_left; intro n _; simp only [Function.comp]; omega
  have c1 : ((cells nh nv).map fun n => 3 * (4 * nc nh nv n 0 1) + 1) = ((cells nh nv).map fun n => nc nh nv n 0 1).map fun m => 1 + 12 * m := by
    rw [List.map_map]; apply List.map_congr_left; intro n _; simp only [Function.comp]; omega
  have d1 : ((cells nh nv).map fun n => 3 * (4 * nc nh nv n 1 1) + 2) = ((cells nh nv).map fun n => nc nh nv n 1 1).map fun m => 2 + 12 * m := by
    rw [List.map_map]; apply List.map_congr_left; intro n _; simp only [Function.comp]; omega
  rw [a1, a2, a3, a4, a5, a6, a7, a8, a9, b1, c1, d1]
  rw [cnt12 nh nv _ pid 0 q k hq hk (by decide), cnt12 nh nv _ pid 8 q k hq hk (by decide), cnt12 nh nv _ pid 6 q k hq hk (by decide),
    cnt12 nh nv _ pid 3 q k hq hk (by decide), cnt12 nh nv _ pid 5 q k hq hk (by decide), cnt12 nh nv _ pid 9 q k hq hk (by decide),
    cnt12 nh nv _ pid 7 q k hq hk (by decide), cnt12 nh nv _ pid 10 q k hq hk (by decide), cnt12 nh nv _ pid 11 q k hq hk (by decide),
    cnt12 nh nv _ p10 4 q k hq hk (by decide), cnt12 nh nv _ p01 1 q k hq hk (by decide), cnt12 nh nv _ p11 2 q k hq hk (by decide)]
  interval_cases k <;> simp

/-- **C10 (honeycomb colouring, every size)**: in the colouring `honeycomb_lattice(…, return_coloring=True)` supplies, every
    vertex has exactly one edge end of each of the three colours: the colouring is a proper 3-edge-colouring for all sizes -/
theorem honeycomb_colouring_proper (nh nv : Nat) (hh : 0 < nh) (hv : 0 < nv) (v k : Nat) (hvlt : v < 4 * (nh * nv)) (hk : k < 3) :
    let zs := (honeycomb nh nv).zip (honeycombColouring nh nv)
    zs.countP (fun z => decide (z.1.1.1 = v ∧ z.2 = k)) + zs.countP (fun z => decide (z.1.1.2 = v ∧ z.2 = k)) = 1 := by
  intro zs
  have hz : zs = honeycombColoured nh nv := honeycomb_zip nh nv
  have hc : ∀ z ∈ zs, z.2 < 3 := by
    rw [hz]; unfold honeycombColoured
    intro z hzm
    simp only [List.mem_append, List.mem_flatMap, List.mem_map, List.mem_cons, List.not_mem_nil, or_false] at hzm
    rcases hzm with ((⟨n, _, h | h | h⟩ | ⟨n, _, h⟩ | ⟨n, _, h⟩) | ⟨n, _, h⟩) <;> (subst h; simp)
  rw [← colEnds_count zs hc v k hk, hz]
  exact honeycombColoured_codes nh nv hh hv _ (by omega)

/-- the colour list has one entry per edge -/
theorem honeycomb_colouring_length (nh nv : Nat) : (honeycombColouring nh nv).length = (honeycomb nh nv).length := by
  unfold honeycomb honeycombColouring
  simp only [List.length_append, List.length_flatMap, List.length_map, List.length_cons, List.length_nil, List.map_const', List.sum_replicate]
  simp
  omega


/-- the literal tables of `honeycomb_lattice` and `hex_square_oct_lattice` in the model are the ones the source holds on this run -/
theorem honey_tables_tie :
    GenT.honey_internal = [(0, 1), (2, 1), (2, 3)] ∧ GenT.honey_coloring_blocks = [[0, 2, 0], [1, 1], [2]] ∧
    GenT.hso_internal = [(0, 1), (1, 2), (2, 3), (3, 4), (4, 5), (5, 0)] := by decide

example : let zs := (honeycomb 2 3).zip (honeycombColouring 2 3)
    zs.countP (fun z => decide (z.1.1.1 = 13 ∧ z.2 = 1)) + zs.countP (fun z => decide (z.1.1.2 = 13 ∧ z.2 = 1)) = 1 := by decide

end HoneycombColouring


section Square
open G10

/-- `(i + n − 1) % n` is the predecessor on the cycle -/
theorem pred_mod (n i : Nat) (hi : i < n) : (i + n - 1) % n = if i = 0 then n - 1 else i - 1 := by
  by_cases h0 : i = 0
  · subst h0; simp only [Nat.zero_add, if_true]; exact Nat.mod_eq_of_lt (by omega)
  · rw [if_neg h0]
    have : i + n - 1 = (i - 1) + n := by omega
    rw [this, Nat.add_mod_right]; exact Nat.mod_eq_of_lt (by omega)

theorem pred_perm (n : Nat) : ((List.range n).map fun i => (i + n - 1) % n).Perm (List.range n) := by
  have hnd : ((List.range n).map fun i => (i + n - 1) % n).Nodup := by
    refine (List.nodup_map_iff_inj_on List.nodup_range).mpr ?_
    intro a ha b hb hab
    rw [List.mem_range] at ha hb
    rw [pred_mod n a ha, pred_mod n b hb] at hab
    split at hab <;> split at hab <;> omega
  have hsub : ((List.range n).map fun i => (i + n - 1) % n) ⊆ List.range n := by
    intro x hx
    obtain ⟨i, hi, rfl⟩ := List.mem_map.mp hx
    rw [List.mem_range] at hi ⊢
    exact Nat.mod_lt _ (by omega)
  exact (hnd.subperm hsub).perm_of_length_le (by simp)

/-- row-major enumeration of an `nx × ny` grid is `range (nx·ny)` -/
theorem grid_range (nx ny : Nat) :
    ((List.range nx).flatMap fun a => (List.range ny).map fun b => a * ny + b) = List.range (nx * ny) := by
  induction nx with
  | zero => simp
  | succ n ih =>
    rw [List.range_succ, List.flatMap_append, ih, Nat.succ_mul, List.range_add]
    simp

/-- relabelling rows by a permutation `σ` and columns by a permutation `τ` permutes the grid -/
theorem grid_perm (nx ny : Nat) (σ τ : Nat → Nat) (hσ : ((List.range nx).map σ).Perm (List.range nx))
    (hτ : ((List.range ny).map τ).Perm (List.range ny)) :
    (((List.range nx).flatMap fun i => (List.range ny).map fun j => (i, j)).map fun p => σ p.1 * ny + τ p.2).Perm
      (List.range (nx * ny)) := by
  rw [← grid_range]
  have e : (((List.range nx).flatMap fun i => (List.range ny).map fun j => (i, j)).map fun p => σ p.1 * ny + τ p.2)
      = ((List.range nx).map σ).flatMap fun a => ((List.range ny).map τ).map fun b => a * ny + b := by
    rw [List.map_flatMap, List.flatMap_map]
    simp [List.map_map, Function.comp_def]
  rw [e]
  refine (List.Perm.flatMap_right _ hσ).trans ?_
  apply List.Perm.flatMap_left
  intro a _
  exact hτ.map _

theorem id_perm (n : Nat) : ((List.range n).map fun i => i).Perm (List.range n) := by simp

/-- **C10 (square lattice, every size)**: every one of the `n_x·n_y` vertices of `square_lattice(n_x, n_y)` has exactly four
    edge ends -/
theorem square_tetravalent (nx ny : Nat) (v : Nat) (hv : v < nx * ny) : degIn (square nx ny) v = 4 := by
  have c := fun σ τ hσ hτ => (grid_perm nx ny σ τ hσ hτ).count_eq v
  have one : (List.range (nx * ny)).count v = 1 := List.count_eq_one_of_mem List.nodup_range (List.mem_range.mpr hv)
  unfold square degIn
  simp only [List.map_append, List.map_map, Function.comp_def, List.count_append]
  have h1 := c (fun i => (i + nx - 1) % nx) (fun j => j) (pred_perm nx) (id_perm ny)
  have h2 := c (fun i => i) (fun j => (j + ny - 1) % ny) (id_perm nx) (pred_perm ny)
  have h3 := c (fun i => i) (fun j => j) (id_perm nx) (id_perm ny)
  rw [h1, h2, h3, one]

example : degIn (square 3 4) 7 = 4 := by decide


end Square

end C10
