import KoalaVerif.Model.Gen10
import KoalaVerif.Generated.Kernels
import KoalaVerif.Generated.Tables
import Mathlib.Data.List.Basic
import Mathlib.Tactic.Ring

/-! # C10 — the built-in generators: index and crossing bookkeeping for every size

The theorems are stated about the kernels regenerated from `example_graphs.py` on every run
(`Gen.next_cell_number`, `Gen.crossing`, the two nested `next_direction`s) and hold for all grid sizes. -/

namespace C10
open Gen

/-! ### the executable model uses the translated kernels -/

theorem nextCell_eq_translated (nh nv n s0 s1 : Int) : G10.nextCell nh nv n s0 s1 = next_cell_number nh nv n s0 s1 := rfl

theorem crossing_eq_translated (nx ny n s0 s1 : Int) : G10.crossing nx ny n s0 s1 = crossing nx ny n s0 s1 := by
  unfold G10.crossing crossing b2i
  ext <;> simp only <;> split <;> simp_all

/-- the nested `next_direction` of `honeycomb_lattice` and of `hex_square_oct_lattice` are the same function -/
theorem honeycomb_next_direction_eq (nh nv n s0 s1 : Int) :
    honeycomb_next_direction nh nv n s0 s1 = next_cell_number nh nv n s0 s1 := rfl

theorem hso_next_direction_eq (c n s0 s1 : Int) : hso_next_direction c n s0 s1 = next_cell_number c c n s0 s1 := rfl

/-! ### the one-dimensional wrap lemma -/

theorem wrap_1d (m x s : Int) (hm : 0 < m) (hx0 : 0 ≤ x) (hx : x < m) (hs : s = -1 ∨ s = 0 ∨ s = 1) :
    x + s = Int.fmod (x + s) m + m * (b2i (decide (Int.fdiv (x + s) m ≠ Int.fdiv x m)) * s) := by
  have hxdiv : Int.fdiv x m = 0 := by
    rw [Int.fdiv_eq_ediv_of_nonneg _ (Int.le_of_lt hm)]; exact Int.ediv_eq_zero_of_lt hx0 hx
  rw [hxdiv, Int.fmod_eq_emod_of_nonneg _ (Int.le_of_lt hm), Int.fdiv_eq_ediv_of_nonneg _ (Int.le_of_lt hm)]
  have key : x + s = (x + s) % m + m * ((x + s) / m) := (Int.emod_add_mul_ediv (x+s) m).symm
  have hr := Int.emod_nonneg (x + s) (Int.ne_of_gt hm)
  have hr2 := Int.emod_lt_of_pos (x + s) hm
  have h1 : -1 ≤ (x + s) / m := by
    apply Int.le_ediv_of_mul_le hm; rcases hs with h | h | h <;> omega
  have h2 : (x + s) / m < 2 := by
    apply Int.ediv_lt_of_lt_mul hm; rcases hs with h | h | h <;> omega
  generalize (x + s) / m = q at *
  generalize (x + s) % m = r at *
  have hq : q = -1 ∨ q = 0 ∨ q = 1 := by omega
  rcases hq with h | h | h <;> subst h <;> rcases hs with h' | h' | h' <;> subst h' <;>
    simp [b2i] at key ⊢ <;> omega

/-! ### coordinates of the target cell -/

theorem fmod_nonneg_lt (a m : Int) (hm : 0 < m) : 0 ≤ Int.fmod a m ∧ Int.fmod a m < m := by
  rw [Int.fmod_eq_emod_of_nonneg _ (Int.le_of_lt hm)]
  exact ⟨Int.emod_nonneg _ (Int.ne_of_gt hm), Int.emod_lt_of_pos _ hm⟩

/-- column of the target cell: `(x + s0) mod n_x` -/
theorem next_cell_col (nx ny n s0 s1 : Int) (hnx : 0 < nx) :
    Int.fmod (next_cell_number nx ny n s0 s1) nx = Int.fmod (Int.fmod n nx + s0) nx := by
  unfold next_cell_number
  simp only [Int.fmod_eq_emod_of_nonneg _ (Int.le_of_lt hnx)]
  rw [Int.add_comm (_ * nx), Int.add_mul_emod_self_right, Int.emod_emod_of_dvd _ (Int.dvd_refl nx),
    Int.emod_add_emod]

/-- row of the target cell: `(y + s1) mod n_y` -/
theorem next_cell_row (nx ny n s0 s1 : Int) (hnx : 0 < nx) (hny : 0 < ny) :
    Int.fdiv (next_cell_number nx ny n s0 s1) nx = Int.fmod (Int.fdiv n nx + s1) ny := by
  unfold next_cell_number
  obtain ⟨h0, h1⟩ := fmod_nonneg_lt (n + s0) nx hnx
  rw [Int.fdiv_eq_ediv_of_nonneg _ (Int.le_of_lt hnx), Int.add_comm, Int.add_mul_ediv_right _ _ (Int.ne_of_gt hnx),
    Int.ediv_eq_zero_of_lt h0 h1, Int.zero_add]

/-- the target cell is a cell of the grid -/
theorem next_cell_range (nx ny n s0 s1 : Int) (hnx : 0 < nx) (hny : 0 < ny) :
    0 ≤ next_cell_number nx ny n s0 s1 ∧ next_cell_number nx ny n s0 s1 < nx * ny := by
  unfold next_cell_number
  obtain ⟨a0, a1⟩ := fmod_nonneg_lt (n + s0) nx hnx
  obtain ⟨b0, b1⟩ := fmod_nonneg_lt (Int.fdiv n nx + s1) ny hny
  constructor
  · have := Int.mul_nonneg b0 (Int.le_of_lt hnx); omega
  · have h : Int.fmod (Int.fdiv n nx + s1) ny + 1 ≤ ny := by omega
    have := Int.mul_le_mul_of_nonneg_right h (Int.le_of_lt hnx)
    rw [Int.add_mul, Int.one_mul] at this
    rw [Int.mul_comm nx ny]
    omega

/-- **C10.1 x-bookkeeping of every tiled edge**, for every grid size: the column of the target cell and the crossing
    flag account exactly for the shift (`x + s = x' + n_x·c_x`) -/
theorem crossing_consistent_x (nx ny n s0 s1 : Int) (hnx : 0 < nx) (hs : s0 = -1 ∨ s0 = 0 ∨ s0 = 1) :
    Int.fmod n nx + s0 = Int.fmod (next_cell_number nx ny n s0 s1) nx + nx * (crossing nx ny n s0 s1).1 := by
  obtain ⟨hx0, hx1⟩ := fmod_nonneg_lt n nx hnx
  have hc : (crossing nx ny n s0 s1).1 =
      b2i (decide (Int.fdiv (Int.fmod n nx + s0) nx ≠ Int.fdiv (Int.fmod n nx) nx)) * s0 := rfl
  rw [next_cell_col nx ny n s0 s1 hnx, hc]
  exact wrap_1d nx (Int.fmod n nx) s0 hnx hx0 hx1 hs

/-- **C10.1 y-bookkeeping** (`y + s = y' + n_y·c_y`) for every cell `0 ≤ n < n_x·n_y` -/
theorem crossing_consistent_y (nx ny n s0 s1 : Int) (hnx : 0 < nx) (hny : 0 < ny) (hn0 : 0 ≤ n) (hn : n < nx * ny)
    (hs : s1 = -1 ∨ s1 = 0 ∨ s1 = 1) :
    Int.fdiv n nx + s1 = Int.fdiv (next_cell_number nx ny n s0 s1) nx + ny * (crossing nx ny n s0 s1).2 := by
  have hy0 : 0 ≤ Int.fdiv n nx := by
    rw [Int.fdiv_eq_ediv_of_nonneg _ (Int.le_of_lt hnx)]; exact Int.ediv_nonneg hn0 (Int.le_of_lt hnx)
  have hy1 : Int.fdiv n nx < ny := by
    rw [Int.fdiv_eq_ediv_of_nonneg _ (Int.le_of_lt hnx)]
    exact Int.ediv_lt_of_lt_mul hnx (by rw [Int.mul_comm]; exact hn)
  have hc : (crossing nx ny n s0 s1).2 =
      b2i (decide (Int.fdiv (Int.fdiv n nx + s1) ny ≠ Int.fdiv (Int.fdiv n nx) ny)) * s1 := rfl
  rw [next_cell_row nx ny n s0 s1 hnx hny, hc]
  exact wrap_1d ny (Int.fdiv n nx) s1 hny hy0 hy1 hs

/-- crossing flags are 0 or the shift itself -/
theorem crossing_values (nx ny n s0 s1 : Int) :
    ((crossing nx ny n s0 s1).1 = 0 ∨ (crossing nx ny n s0 s1).1 = s0) ∧
    ((crossing nx ny n s0 s1).2 = 0 ∨ (crossing nx ny n s0 s1).2 = s1) := by
  unfold crossing b2i
  constructor <;> simp only <;> split <;> simp

/-- shifting by `s` and then by `−s` returns to the cell: translation by a fixed shift is a bijection of the
    cells, so every tiled unit cell receives each of its edge types exactly once -/
theorem next_cell_inverse (nx ny n s0 s1 : Int) (hnx : 0 < nx) (hny : 0 < ny) (hn0 : 0 ≤ n) (hn : n < nx * ny) :
    next_cell_number nx ny (next_cell_number nx ny n s0 s1) (-s0) (-s1) = n := by
  have hcol := next_cell_col nx ny n s0 s1 hnx
  have hrow := next_cell_row nx ny n s0 s1 hnx hny
  set m := next_cell_number nx ny n s0 s1 with hm
  have hy1 : Int.fdiv n nx < ny := by
    rw [Int.fdiv_eq_ediv_of_nonneg _ (Int.le_of_lt hnx)]
    exact Int.ediv_lt_of_lt_mul hnx (by rw [Int.mul_comm]; exact hn)
  have hy0 : 0 ≤ Int.fdiv n nx := by
    rw [Int.fdiv_eq_ediv_of_nonneg _ (Int.le_of_lt hnx)]; exact Int.ediv_nonneg hn0 (Int.le_of_lt hnx)
  show Int.fmod (Int.fdiv m nx + -s1) ny * nx + Int.fmod (m + -s0) nx = n
  have e1 : Int.fmod (Int.fdiv m nx + -s1) ny = Int.fdiv n nx := by
    rw [hrow]
    simp only [Int.fmod_eq_emod_of_nonneg _ (Int.le_of_lt hny)]
    rw [Int.emod_add_emod, Int.add_neg_cancel_right]
    exact Int.emod_eq_of_lt hy0 hy1
  have e2 : Int.fmod (m + -s0) nx = Int.fmod n nx := by
    have : Int.fmod (m + -s0) nx = Int.fmod (Int.fmod m nx + -s0) nx := by
      simp only [Int.fmod_eq_emod_of_nonneg _ (Int.le_of_lt hnx)]
      rw [Int.emod_add_emod]
    rw [this, hcol]
    simp only [Int.fmod_eq_emod_of_nonneg _ (Int.le_of_lt hnx)]
    rw [Int.emod_add_emod, Int.add_neg_cancel_right, Int.emod_emod_of_dvd _ (Int.dvd_refl nx)]
  rw [e1, e2, Int.fdiv_eq_ediv_of_nonneg _ (Int.le_of_lt hnx), Int.fmod_eq_emod_of_nonneg _ (Int.le_of_lt hnx)]
  rw [Int.mul_comm]
  exact Int.mul_ediv_add_emod n nx

/-! ### tile_unit_cell: counts and the shape of every tiled edge -/

/-- `n_x·n_y·|E|` edges (and as many crossings) -/
theorem tile_length (k : Nat) (ue : List (Nat × Nat)) (uc : List (Int × Int)) (nx ny : Nat) (h : ue.length = uc.length) :
    (G10.tile k ue uc nx ny).length = nx * ny * ue.length := by
  unfold G10.tile
  rw [List.length_flatMap]
  simp only [List.length_map, List.length_zip, h, Nat.min_self]
  rw [List.map_const', List.sum_replicate_nat]
  simp

/-- copy `p` of unit edge `(a, b)` with unit crossing `c` starts at `a + p·k`, ends in the translated cell, and
    carries the translated crossing -/
theorem mem_tile (k : Nat) (ue : List (Nat × Nat)) (uc : List (Int × Int)) (nx ny : Nat) (x : (Nat × Nat) × (Int × Int)) :
    x ∈ G10.tile k ue uc nx ny ↔ ∃ p, p < nx * ny ∧ ∃ ec ∈ ue.zip uc,
      x = ((ec.1.1 + p * k, ec.1.2 + k * (next_cell_number nx ny p ec.2.1 ec.2.2).toNat), crossing nx ny p ec.2.1 ec.2.2) := by
  unfold G10.tile G10.nc
  simp only [List.mem_flatMap, List.mem_range, List.mem_map, nextCell_eq_translated, crossing_eq_translated]
  constructor
  · rintro ⟨p, hp, ec, hec, rfl⟩; exact ⟨p, hp, ec, hec, rfl⟩
  · rintro ⟨p, hp, ec, hec, rfl⟩; exact ⟨p, hp, ec, hec, rfl⟩

/-- every tiled edge stays inside the `n_x·n_y·k` vertices -/
theorem tile_in_range (k : Nat) (ue : List (Nat × Nat)) (uc : List (Int × Int)) (nx ny : Nat) (hnx : 0 < nx) (hny : 0 < ny)
    (hue : ∀ e ∈ ue, e.1 < k ∧ e.2 < k) (x : (Nat × Nat) × (Int × Int)) (hx : x ∈ G10.tile k ue uc nx ny) :
    x.1.1 < nx * ny * k ∧ x.1.2 < nx * ny * k := by
  obtain ⟨p, hp, ec, hec, rfl⟩ := (mem_tile k ue uc nx ny x).mp hx
  obtain ⟨h1, h2⟩ := hue ec.1 (List.of_mem_zip hec).1
  obtain ⟨r0, r1⟩ := next_cell_range nx ny p ec.2.1 ec.2.2 (by exact_mod_cast hnx) (by exact_mod_cast hny)
  have hq : (next_cell_number nx ny p ec.2.1 ec.2.2).toNat < nx * ny := by
    have : ((next_cell_number nx ny p ec.2.1 ec.2.2).toNat : Int) < ((nx * ny : Nat) : Int) := by
      rw [Int.toNat_of_nonneg r0]; push_cast; exact r1
    exact_mod_cast this
  constructor
  · simp only
    calc ec.1.1 + p * k < k + p * k := by omega
      _ = (p + 1) * k := by ring
      _ ≤ nx * ny * k := Nat.mul_le_mul_right k hp
  · simp only
    calc ec.1.2 + k * (next_cell_number nx ny p ec.2.1 ec.2.2).toNat < k + k * (next_cell_number nx ny p ec.2.1 ec.2.2).toNat := by omega
      _ = ((next_cell_number nx ny p ec.2.1 ec.2.2).toNat + 1) * k := by ring
      _ ≤ nx * ny * k := Nat.mul_le_mul_right k hq

/-! ### instances: the unit cells in the source -/

/-- the tri-non lattice is the tiling of the unit cell written in the source -/
example : (G10.tile 4 GenT.trinon_edges GenT.trinon_crossing 2 3).length = 2 * 3 * 6 := by decide
example : G10.nVertical 2 = 1 ∧ G10.nVertical 3 = 2 ∧ G10.nVertical 16 = 9 := by decide
example : crossing 3 2 2 1 0 = (1, 0) ∧ next_cell_number 3 2 2 1 0 = 0 ∧ crossing 3 2 0 (-1) (-1) = (-1, -1) := by decide

end C10
