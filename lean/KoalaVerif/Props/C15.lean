import KoalaVerif.Model.Effects
import KoalaVerif.Props.C02
import Mathlib.Data.Nat.Bitwise

/-! # C15 — no koala operation modifies the lattice or arrays passed to it

`Generated/Effects.lean` (rewritten from the source on every run) contains, for every function of koala, its
effect program, a points-to certificate and the kernel-checked obligation `check prog pt allowed = true`.
This file proves what such an obligation means (`noParamWrite_sound`) and the history-independence consequence. -/

namespace C15
open Eff

/-- the invariant carried along every run: a variable holding a parameter location is flagged for it -/
def PInv (nParams : Nat) (pt : Var → Nat) (s : St) : Prop :=
  ∀ x l, s.env x = some l → l < nParams → (pt x).testBit l = true

theorem subMask_testBit {m m' : Nat} (h : subMask m m' = true) (i : Nat) (hi : m.testBit i = true) : m'.testBit i = true := by
  unfold subMask at h
  have h' : m &&& m' = m := by simpa using h
  have := congrArg (fun n => n.testBit i) h'
  simp only [Nat.testBit_and, hi, Bool.true_and] at this
  exact this

theorem step_inv {nParams : Nat} {prog : List Atom} {pt : Var → Nat} {allowed : Nat}
    (hc : check prog pt allowed = true) {a : Atom} (ha : a ∈ prog) {s : St} (hI : PInv nParams pt s) :
    PInv nParams pt (step nParams s a) ∧
      ∀ l, l < nParams → allowed.testBit l = false → (step nParams s a).heap l = s.heap l := by
  have hca := (List.all_eq_true.mp hc) a ha
  cases a with
  | bindFresh x =>
    refine ⟨?_, fun _ _ _ => rfl⟩
    intro v l hv hl
    simp only [step] at hv
    split at hv
    · have h : max s.next nParams = l := Option.some.inj hv
      have h2 : nParams ≤ max s.next nParams := Nat.le_max_right s.next nParams
      have hl' : (l : Nat) < nParams := hl
      rw [← h] at hl'; exact absurd hl' (Nat.not_lt.mpr h2)
    · exact hI v l hv hl
  | bindParam x i =>
    refine ⟨?_, fun _ _ _ => rfl⟩
    intro v l hv hl
    simp only [step] at hv
    split at hv
    · next h =>
      subst h
      split at hv
      · have : i = l := Option.some.inj hv
        subst this; simpa using hca
      · cases hv
    · exact hI v l hv hl
  | bindAlias x y =>
    refine ⟨?_, fun _ _ _ => rfl⟩
    intro v l hv hl
    simp only [step] at hv
    split at hv
    · next h =>
      subst h
      exact subMask_testBit (by simpa using hca) l (hI y l hv hl)
    · exact hI v l hv hl
  | mutate x =>
    simp only [step]
    cases hx : s.env x with
    | none => exact ⟨hI, fun _ _ _ => rfl⟩
    | some l =>
      refine ⟨hI, ?_⟩
      intro l' hl' hnot
      simp only
      split
      · next h =>
        subst h
        have h1 := hI x l' hx hl'
        have h2 := subMask_testBit (by simpa using hca) l' h1
        rw [hnot] at h2; cases h2
      · rfl
  | useGlobalRng => exact ⟨hI, fun _ _ _ => rfl⟩

/-- **soundness of the obligation**: if `check prog pt allowed` holds then along *every* finite sequence of atoms
    drawn from the program — whatever branches, loop counts, early returns or exceptions produced it — every
    parameter region outside `allowed` keeps exactly the version it started with: nothing reachable from such an
    argument is written -/
theorem noParamWrite_sound {nParams : Nat} {prog : List Atom} {pt : Var → Nat} {allowed : Nat}
    (hc : check prog pt allowed = true) (t : List Atom) (ht : ∀ a ∈ t, a ∈ prog) (s : St) (hI : PInv nParams pt s) :
    ∀ l, l < nParams → allowed.testBit l = false → (run nParams s t).heap l = s.heap l := by
  induction t generalizing s with
  | nil => intro l _ _; rfl
  | cons a t ih =>
    intro l hl hnot
    have ⟨hI', hh⟩ := step_inv hc (ht a (List.mem_cons_self)) hI
    have := ih (fun b hb => ht b (List.mem_cons_of_mem _ hb)) (step nParams s a) hI' l hl hnot
    simp only [run, List.foldl_cons] at this ⊢
    rw [this, hh l hl hnot]

/-- a call starts with no variable bound: the invariant holds trivially -/
theorem pinv_init (nParams : Nat) (pt : Var → Nat) (heap : Loc → Nat) (next rng : Nat) :
    PInv nParams pt { env := fun _ => none, heap := heap, next := next, rng := rng } := by
  intro x l h; cases h

/-- public functions (`allowed = 0`): no argument is modified at all -/
theorem public_preserves_all {nParams : Nat} {prog : List Atom} {pt : Var → Nat}
    (hc : check prog pt 0 = true) (t : List Atom) (ht : ∀ a ∈ t, a ∈ prog) (heap : Loc → Nat) (next rng : Nat) :
    ∀ l, l < nParams → (run nParams { env := fun _ => none, heap := heap, next := next, rng := rng } t).heap l = heap l :=
  fun l hl => noParamWrite_sound hc t ht _ (pinv_init nParams pt heap next rng) l hl (by simp)

/-- **random-state non-interference** (used by C19): a program without `useGlobalRng` atoms leaves the global random
    state untouched along every run -/
theorem noGlobalRng_sound {nParams : Nat} {prog : List Atom} (hc : noGlobalRng prog = true) (t : List Atom)
    (ht : ∀ a ∈ t, a ∈ prog) (s : St) : (run nParams s t).rng = s.rng := by
  induction t generalizing s with
  | nil => rfl
  | cons a t ih =>
    have ha : a ≠ .useGlobalRng := by
      have := (List.all_eq_true.mp hc) a (ht a List.mem_cons_self)
      simpa using this
    have hstep : (step nParams s a).rng = s.rng := by
      cases a with
      | useGlobalRng => exact absurd rfl ha
      | mutate x => simp only [step]; split <;> rfl
      | _ => rfl
    have := ih (fun b hb => ht b (List.mem_cons_of_mem _ hb)) (step nParams s a)
    simp only [run, List.foldl_cons] at this ⊢
    rw [this, hstep]

/-! ### history independence

A call is *pure in its arguments* when it leaves them unchanged (above) and its result is a function of their
contents (and of the stream of a supplied generator).  For a sequence of such calls on shared objects, the
contents every call sees are the initial ones, so every result equals the result on fresh copies.  The only state
the calls do change — the lattice's lazily computed attributes — is history independent by C02. -/

/-- abstract sequence of operations on a shared store `σ`: each reads the store and may only change its cache part -/
theorem history_independent {σ ρ : Type} (args : σ → σ) (ops : List (σ → σ × ρ)) (s0 : σ)
    (hpure : ∀ op ∈ ops, ∀ s, args (op s).1 = args s ∧ (op s).2 = (op (args s)).2)
    (hidem : ∀ s, args (args s) = args s) :
    ∀ (pre : List (σ → σ × ρ)) (op : σ → σ × ρ), pre ++ [op] <+: ops →
      (op (pre.foldl (fun s f => (f s).1) s0)).2 = (op (args s0)).2 := by
  intro pre op hpo
  have hmem : ∀ f ∈ pre ++ [op], f ∈ ops := fun f hf => hpo.subset hf
  have hargs : args (pre.foldl (fun s f => (f s).1) s0) = args s0 := by
    have : ∀ (l : List (σ → σ × ρ)) (s : σ), (∀ f ∈ l, f ∈ ops) → args (l.foldl (fun s f => (f s).1) s) = args s := by
      intro l
      induction l with
      | nil => intro s _; rfl
      | cons f l ih =>
        intro s hl
        simp only [List.foldl_cons]
        rw [ih (f s).1 (fun g hg => hl g (by simp [hg])), (hpure f (hl f (by simp)) s).1]
    exact this pre s0 (fun f hf => hmem f (by simp [hf]))
  rw [(hpure op (hmem op (by simp)) _).2, hargs]

/-- the cache part is covered by C02: whatever accesses happened before, every observed cached value is the pure one -/
theorem caches_history_independent {V : Type} (pv : Cache.Pure V) (ops : List Cache.Op) :
    ∀ x ∈ (Cache.run pv ({} : Cache.State V) ops []).2, ∃ a, x = some (Cache.pureOf pv a) := by
  intro x hx
  rw [C02.cache_history_independent pv ops] at hx
  obtain ⟨a, _, ha⟩ := List.mem_map.mp hx
  exact ⟨a, ha.symm⟩

/-! ### non-vacuity: `u2 = u.copy(); u2[...] *= -1` passes, `u[...] *= -1` does not -/

example : check [.bindParam 0 0, .bindFresh 1, .mutate 1] (ptOf [(0, 1)]) 0 = true := by decide
example : check [.bindParam 0 0, .bindAlias 1 0, .mutate 1] (ptOf [(0, 1), (1, 1)]) 0 = false := by decide
example : check [.bindParam 0 0, .bindAlias 1 0, .mutate 1] (ptOf [(0, 1)]) 0 = false := by decide     -- a wrong certificate is rejected too
example : check [.bindParam 0 1, .bindAlias 1 0, .mutate 1] (ptOf [(0, 2), (1, 2)]) 2 = true := by decide  -- helper allowed to update its argument 1

end C15
