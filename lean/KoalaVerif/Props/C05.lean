import KoalaVerif.Props.C01
import KoalaVerif.Model.Flux
import KoalaVerif.Generated.Kernels
import Mathlib.Algebra.BigOperators.Group.List.Basic
import Mathlib.Data.List.Rotate
import Mathlib.Tactic.Ring

/-! # C05 — plaquette fluxes are the oriented gauge-invariant product of bond variables -/

namespace C05
open C01

/-- the definition itself: the flux is the product over the boundary of minus the bond variable read
    along the direction of travel; a bond traversed against its stored orientation counts with the
    opposite sign. -/
theorem flux_def (u : Nat → Int) (w : List Dart) :
    flux u w = (w.map fun d => -(u d.1) * dirSign d).prod := rfl

theorem reversed_bond_counts_opposite (u : Nat → Int) (e : Nat) :
    -(u e) * dirSign (e, true) = -(-(u e) * dirSign (e, false)) := by
  simp [dirSign]

theorem pm_mul {x y : Int} (hx : x = 1 ∨ x = -1) (hy : y = 1 ∨ y = -1) : x * y = 1 ∨ x * y = -1 := by
  rcases hx with h | h <;> rcases hy with h' | h' <;> simp [h, h']

theorem flux_pm_one (u : Nat → Int) (w : List Dart) (hu : ∀ d ∈ w, u d.1 = 1 ∨ u d.1 = -1) :
    flux u w = 1 ∨ flux u w = -1 := by
  unfold flux
  induction w with
  | nil => simp
  | cons a t ih =>
    have ht := ih (fun d hd => hu d (List.mem_cons_of_mem _ hd))
    have ha := hu a List.mem_cons_self
    simp only [List.map_cons, List.prod_cons]
    have hs : dirSign a = 1 ∨ dirSign a = -1 := by unfold dirSign; split <;> simp
    have hn : -(u a.1) = 1 ∨ -(u a.1) = -1 := by rcases ha with h | h <;> simp [h]
    exact pm_mul (pm_mul hn hs) ht

/-! ### complex variant -/

theorem gmul_assoc_im (a f : Int) (p : Int × Int) :
    gmul (0, a) (f * p.1, f * p.2) = ((a * f) * (gmul (0, 1) p).1, (a * f) * (gmul (0, 1) p).2) := by
  unfold gmul; simp; constructor <;> ring

/-- the complex variant equals the real flux times i to the number of sides -/
theorem complex_eq_real_times_i_pow (u : Nat → Int) (w : List Dart) :
    fluxC u w = (flux u w * (ipow w.length).1, flux u w * (ipow w.length).2) := by
  induction w with
  | nil => simp [fluxC, flux, ipow]
  | cons a t ih =>
    have : fluxC u (a :: t) = gmul (0, -(u a.1) * dirSign a) (fluxC u t) := rfl
    rw [this, ih, gmul_assoc_im]
    simp only [flux, List.map_cons, List.prod_cons, List.length_cons, ipow]

theorem ipow_four (n : Nat) : ipow (n + 4) = ipow n := by
  simp only [ipow, gmul]; ext <;> simp

theorem ipow_values : ipow 0 = (1, 0) ∧ ipow 1 = (0, 1) ∧ ipow 2 = (-1, 0) ∧ ipow 3 = (0, -1) := by
  simp [ipow, gmul]

/-- `fluxes_to_labels` (the **translated** source expression) maps +1 to 0 and −1 to 1 -/
theorem labels_spec : Gen.fluxes_to_labels 1 = 0 ∧ Gen.fluxes_to_labels (-1) = 1 := by
  constructor <;> decide

/-! ### gauge invariance -/

def sgn (v x : Nat) : Int := if x = v then -1 else 1

theorem sgn_sq (v x : Nat) : sgn v x * sgn v x = 1 := by unfold sgn; split <;> rfl

theorem ends_iff (L : Lat) (d : Dart) (v : Nat) :
    ((L.endsOf d.1).1 = v ∨ (L.endsOf d.1).2 = v) ↔ (L.tail d = v ∨ L.head d = v) := by
  unfold Lat.tail Lat.head; cases d.2 <;> simp [or_comm]

theorem gauge_factor (L : Lat) (v : Nat) (u : Nat → Int) (d : Dart) (hnl : L.tail d ≠ L.head d) :
    -(gauge L v u d.1) * dirSign d = (-(u d.1) * dirSign d) * (sgn v (L.tail d) * sgn v (L.head d)) := by
  unfold gauge
  by_cases h : (L.endsOf d.1).1 = v ∨ (L.endsOf d.1).2 = v
  · rw [if_pos h]
    rcases (ends_iff L d v).mp h with ht | hh
    · have : L.head d ≠ v := fun hh => hnl (ht.trans hh.symm)
      simp [sgn, ht, this]
    · have : L.tail d ≠ v := fun ht => hnl (ht.trans hh.symm)
      simp [sgn, hh, this]
  · rw [if_neg h]
    have h' := (not_congr (ends_iff L d v)).mp h
    have ht : L.tail d ≠ v := fun e => h' (Or.inl e)
    have hh : L.head d ≠ v := fun e => h' (Or.inr e)
    simp [sgn, ht, hh]

theorem prod_sq_one (l : List Int) (h : ∀ x ∈ l, x * x = 1) : l.prod * l.prod = 1 := by
  induction l with
  | nil => simp
  | cons a t ih =>
    have ha := h a List.mem_cons_self
    have ht := ih (fun x hx => h x (List.mem_cons_of_mem _ hx))
    simp only [List.prod_cons]
    calc a * t.prod * (a * t.prod) = (a * a) * (t.prod * t.prod) := by ring
      _ = 1 := by rw [ha, ht]; rfl

/-- gauge invariance for every consistent closed walk without self-loops -/
theorem gauge_invariant_walk (L : Lat) (v : Nat) (u : Nat → Int) (w : List Dart)
    (hc : ClosedWalk L w) (hnl : ∀ d ∈ w, L.tail d ≠ L.head d) :
    flux (gauge L v u) w = flux u w := by
  unfold flux
  have h1 : (w.map fun d => -(gauge L v u d.1) * dirSign d)
      = w.map fun d => (-(u d.1) * dirSign d) * (sgn v (L.tail d) * sgn v (L.head d)) := by
    apply List.map_congr_left
    intro d hd; exact gauge_factor L v u d (hnl d hd)
  rw [h1]
  have hT : (w.map fun d => sgn v (L.head d)).prod = (w.map fun d => sgn v (L.tail d)).prod := by
    have e1 : (w.map fun d => sgn v (L.head d)) = (w.map L.head).map (sgn v) := by simp
    have e2 : (w.map fun d => sgn v (L.tail d)) = (w.map L.tail).map (sgn v) := by simp
    rw [e1, e2, hc, List.map_rotate]
    exact List.Perm.prod_eq (List.rotate_perm ((w.map L.tail).map (sgn v)) 1)
  have hsq := prod_sq_one (w.map fun d => sgn v (L.tail d)) (by
    intro x hx; obtain ⟨d, _, rfl⟩ := List.mem_map.mp hx; exact sgn_sq v _)
  have hsplit : (w.map fun d => (-(u d.1) * dirSign d) * (sgn v (L.tail d) * sgn v (L.head d))).prod
      = (w.map fun d => -(u d.1) * dirSign d).prod *
        ((w.map fun d => sgn v (L.tail d)).prod * (w.map fun d => sgn v (L.head d)).prod) := by
    rw [List.prod_map_mul (f := fun d => -(u d.1) * dirSign d)
          (g := fun d => sgn v (L.tail d) * sgn v (L.head d)),
        List.prod_map_mul (f := fun d => sgn v (L.tail d)) (g := fun d => sgn v (L.head d))]
  rw [hsplit, hT, hsq, mul_one]

theorem tail_ne_head (L : Lat) (hL : L.noSelfLoop = true) (d : Dart) (hd : d.1 < L.E) : L.tail d ≠ L.head d := by
  have := noLoop_of_noSelfLoop L hL d.1 hd
  unfold Lat.tail Lat.head
  cases d.2 <;> simp <;> [exact this; exact fun h => this h.symm]

theorem walk_darts_valid (L : Lat) (hL : L.noSelfLoop = true) (w : List Dart) (hw : w ∈ allWalks L (rotAt L)) :
    ∀ d ∈ w, d.1 < L.E := by
  obtain ⟨d0, hd0, rfl⟩ := (sweep_partition L hL).1 w hw
  intro d hd
  exact ((walkFrom_orbitLike L (rotAt L) (rotAt_wf L hL)).symm d0 d hd0 hd).1

/-- **Gauge invariance of every flux koala reports**: for every lattice without self-loops, every
    vertex `v` and every bond configuration, flipping all bonds at `v` leaves the flux of every
    plaquette unchanged. -/
theorem gauge_invariant (L : Lat) (hL : L.noSelfLoop = true) (v : Nat) (u : List Int) :
    (plaquettes L (rotAt L)).map (fun p => flux (gauge L v (uOf u)) p.darts) = fluxesOf L (rotAt L) u := by
  unfold fluxesOf
  apply List.map_congr_left
  intro p hp
  have hw : p.darts ∈ plaquetteWalks L := List.mem_map.mpr ⟨p, hp, rfl⟩
  rw [plaquetteWalks_eq, List.mem_filter] at hw
  have hval := walk_darts_valid L hL _ hw.1
  obtain ⟨d0, hd0, hweq⟩ := (sweep_partition L hL).1 _ hw.1
  have hc : ClosedWalk L p.darts := hweq ▸ walk_consistent L hL d0 hd0
  exact gauge_invariant_walk L v (uOf u) p.darts hc (fun d hd => tail_ne_head L hL d (hval d hd))

/-! ### single-bond locality -/

theorem flux_flip1_notMem (u : Nat → Int) (e : Nat) (w : List Dart) (h : e ∉ w.map (·.1)) :
    flux (flip1 e u) w = flux u w := by
  unfold flux
  congr 1
  apply List.map_congr_left
  intro d hd
  have : d.1 ≠ e := fun hh => h (List.mem_map.mpr ⟨d, hd, hh⟩)
  simp [flip1, this]

/-- flipping bond `e` multiplies the flux of a plaquette by −1 iff `e` is on its boundary
    (a valid plaquette uses no edge twice: `Nodup`) -/
theorem single_flip (u : Nat → Int) (e : Nat) (w : List Dart) (hnd : (w.map (·.1)).Nodup) :
    flux (flip1 e u) w = (if e ∈ w.map (·.1) then -1 else 1) * flux u w := by
  induction w with
  | nil => simp [flux]
  | cons a t ih =>
    rw [List.map_cons, List.nodup_cons] at hnd
    have hstep : ∀ u', flux u' (a :: t) = (-(u' a.1) * dirSign a) * flux u' t := fun u' => rfl
    by_cases hae : a.1 = e
    · have hnot : e ∉ t.map (·.1) := hae ▸ hnd.1
      rw [hstep, hstep, flux_flip1_notMem u e t hnot]
      simp only [List.map_cons, List.mem_cons, hae, true_or, if_true]
      simp [flip1, hae]
    · have hea : ¬ e = a.1 := fun h => hae h.symm
      rw [hstep, hstep, ih hnd.2]
      simp only [List.map_cons, List.mem_cons, hea, false_or]
      have : flip1 e u a.1 = u a.1 := by simp [flip1, hae]
      rw [this]; ring

/-! ### global product on a closed lattice -/

theorem dart_pair_prod (u : Nat → Int) (e : Nat) (hu : u e = 1 ∨ u e = -1) :
    (-(u e) * dirSign (e, false)) * (-(u e) * dirSign (e, true)) = -1 := by
  rcases hu with h | h <;> simp [dirSign, h]

theorem prod_dartOrder (u : Nat → Int) (n : Nat) (hu : ∀ e, e < n → (u e = 1 ∨ u e = -1)) :
    ((dartOrder n).map fun d => -(u d.1) * dirSign d).prod = (-1) ^ n := by
  unfold dartOrder
  induction n with
  | zero => simp
  | succ n ih =>
    rw [List.range_succ, List.flatMap_append, List.map_append, List.prod_append,
      ih (fun e he => hu e (by omega))]
    simp only [List.flatMap_cons, List.flatMap_nil, List.append_nil, List.map_cons, List.map_nil,
      List.prod_cons, List.prod_nil, mul_one]
    rw [dart_pair_prod u n (hu n (by omega)), pow_succ]

theorem prod_flux_flatten (u : Nat → Int) (ws : List (List Dart)) :
    (ws.map (flux u)).prod = (ws.flatten.map fun d => -(u d.1) * dirSign d).prod := by
  induction ws with
  | nil => simp
  | cons a t ih =>
    simp only [List.map_cons, List.prod_cons, List.flatten_cons, List.map_append, List.prod_append, ih]
    rfl

/-- if the plaquettes cover every directed edge exactly once (a closed periodic lattice all of whose
    faces are legitimate) the product of all fluxes is (−1)^E -/
theorem global_product (u : Nat → Int) (nE : Nat) (ws : List (List Dart))
    (hcover : ws.flatten.Perm (dartOrder nE)) (hu : ∀ e, e < nE → (u e = 1 ∨ u e = -1)) :
    (ws.map (flux u)).prod = (-1) ^ nE := by
  have h1 := prod_flux_flatten u ws
  rw [h1, (hcover.map _).prod_eq, prod_dartOrder u nE hu]

/-- on a lattice where every face is legitimate the cover hypothesis of `global_product` holds for
    the model's plaquettes -/
theorem cover_of_all_valid (L : Lat) (hL : L.noSelfLoop = true)
    (hall : ∀ w ∈ allWalks L (rotAt L), (analyse L w).valid = true) :
    (plaquetteWalks L).flatten.Perm (dartOrder L.E) := by
  have heq : plaquetteWalks L = allWalks L (rotAt L) := by
    rw [plaquetteWalks_eq, List.filter_eq_self]; exact hall
  rw [heq]
  obtain ⟨h1, h2, h3⟩ := sweep_partition L hL
  have hnd : (allWalks L (rotAt L)).flatten.Nodup := by
    rw [List.nodup_flatten]
    refine ⟨?_, h2⟩
    intro w hw
    obtain ⟨d, hd, rfl⟩ := h1 w hw
    obtain ⟨p, _, _, _, hwf, _, hn⟩ := trace_never_stuck L hL d hd
    rw [hwf]; exact hn
  have hnd2 : (dartOrder L.E).Nodup := by
    unfold dartOrder
    rw [List.nodup_flatMap]
    refine ⟨fun e _ => by simp, ?_⟩
    refine List.Pairwise.imp_of_mem ?_ List.nodup_range
    intro a b _ _ hab x hx hx'
    simp at hx hx'
    rcases hx with rfl | rfl <;> rcases hx' with h | h <;> simp_all
  rw [List.perm_ext_iff_of_nodup hnd hnd2]
  intro d
  constructor
  · intro hd
    obtain ⟨w, hw, hdw⟩ := List.mem_flatten.mp hd
    exact mem_dartOrder L d (walk_darts_valid L hL w hw d hdw)
  · intro hd
    obtain ⟨w, hw, hdw⟩ := h3 d (dartOrder_valid L d hd)
    exact List.mem_flatten.mpr ⟨w, hw, hdw⟩

/-- **global product law for the model's fluxes** -/
theorem global_product_closed (L : Lat) (hL : L.noSelfLoop = true) (u : List Int)
    (hall : ∀ w ∈ allWalks L (rotAt L), (analyse L w).valid = true)
    (hu : ∀ e, e < L.E → (uOf u e = 1 ∨ uOf u e = -1)) :
    (fluxesOf L (rotAt L) u).prod = (-1) ^ L.E := by
  have := global_product (uOf u) L.E (plaquetteWalks L) (cover_of_all_valid L hL hall) hu
  rw [← this]
  unfold fluxesOf plaquetteWalks
  rw [List.map_map]; rfl

/-! ### non-vacuity -/
example : fluxesOf C01.exL (rotAt C01.exL) [1, -1, 1, 1] = [1] := by decide +kernel
example : fluxesCOf C01.exL (rotAt C01.exL) [1, -1, 1, 1] = [(0, -1)] := by decide +kernel

end C05
