import KoalaVerif.Model.Ham
import KoalaVerif.Props.C12
import Mathlib.Data.List.Count
import Mathlib.Data.List.Perm.Basic
import Mathlib.LinearAlgebra.Matrix.Charpoly.Basic
import Mathlib.LinearAlgebra.Matrix.Hermitian
import Mathlib.Data.Matrix.Block
import Mathlib.Data.Complex.Basic
import Mathlib.Tactic.Ring
import Mathlib.Tactic.Linarith

/-! # C07 — the Majorana Hamiltonian is the sum of bond terms and transforms covariantly

`Ham.majEntry` is the executable integer model (`A[k,j] = Σ_e ±w_e`, the driver evaluates it and the harness
compares it entry by entry, exactly, with `majorana_hamiltonian`); `H = (i/4)·A`.  "Spectrum" is the root
multiset of the characteristic polynomial. -/

namespace C07
open Ham Matrix

variable {V : Type} [DecidableEq V]

/-! ### entrywise law (integer level) -/

theorem term_antisymm (e : V × V) (x : Int) (k j : V) : term e x k j = - term e x j k := by
  unfold term
  have h1 : (j = e.2 ∧ k = e.1) ↔ (k = e.1 ∧ j = e.2) := and_comm
  have h2 : (j = e.1 ∧ k = e.2) ↔ (k = e.2 ∧ j = e.1) := and_comm
  simp only [h1, h2]
  ring

theorem sum_map_neg' {α : Type} (l : List α) (f : α → Int) : (l.map fun a => - f a).sum = - (l.map f).sum := by
  induction l with
  | nil => simp
  | cons a t ih => simp only [List.map_cons, List.sum_cons, ih]; ring

/-- **antisymmetric**: `A[k,j] = −A[j,k]` -/
theorem majEntry_antisymm (edges : List (V × V)) (w : List Int) (k j : V) :
    majEntry edges w k j = - majEntry edges w j k := by
  unfold majEntry
  rw [← sum_map_neg']
  congr 1
  apply List.map_congr_left
  intro ex _
  exact term_antisymm ex.1 ex.2 k j

/-- **sum of bond terms**: the entry is additive over the edge list, so parallel edges add -/
theorem majEntry_append (e1 e2 : List (V × V)) (w1 w2 : List Int) (h : e1.length = w1.length) (k j : V) :
    majEntry (e1 ++ e2) (w1 ++ w2) k j = majEntry e1 w1 k j + majEntry e2 w2 k j := by
  unfold majEntry
  rw [List.zip_append h, List.map_append, List.sum_append]

/-- one bond `(a, b)` with weight `x` (`a ≠ b`): `+x` at `[b, a]`, `−x` at `[a, b]`, zero elsewhere -/
theorem majEntry_single (a b : V) (hab : a ≠ b) (x : Int) (k j : V) :
    majEntry [(a, b)] [x] k j = if k = b ∧ j = a then x else if k = a ∧ j = b then -x else 0 := by
  unfold majEntry term
  simp only [List.zip_cons_cons, List.zip_nil_right, List.map_cons, List.map_nil, List.sum_cons, List.sum_nil, add_zero]
  split_ifs with h1 h2 h3 <;> simp_all

/-- zero off the edge set -/
theorem majEntry_zero (edges : List (V × V)) (w : List Int) (k j : V)
    (h : ∀ e ∈ edges, ¬ (k = e.2 ∧ j = e.1) ∧ ¬ (k = e.1 ∧ j = e.2)) : majEntry edges w k j = 0 := by
  unfold majEntry
  have : ∀ ex ∈ edges.zip w, term ex.1 ex.2 k j = 0 := by
    intro ex hex
    obtain ⟨h1, h2⟩ := h ex.1 (List.of_mem_zip hex).1
    simp [term, h1, h2]
  rw [List.map_congr_left this]
  simp

/-- with no colouring every bond uses `J[0]`: the weights are `2·J₀·u` (definitional in the harness: the
    weights it sends are `2·J[colour]·u`, resp. `2·J[0]·u`) -/
theorem majEntry_scale (edges : List (V × V)) (w : List Int) (c : Int) (k j : V) :
    majEntry edges (w.map (c * ·)) k j = c * majEntry edges w k j := by
  unfold majEntry
  induction edges generalizing w with
  | nil => simp
  | cons e es ih =>
    cases w with
    | nil => simp
    | cons x xs =>
      simp only [List.map_cons, List.zip_cons_cons, List.sum_cons, ih xs]
      unfold term
      split_ifs <;> ring

/-! ### gauge covariance (integer level) -/

def sg (v x : V) : Int := if x = v then -1 else 1

theorem term_gauge (e : V × V) (hne : e.1 ≠ e.2) (x : Int) (v k j : V) :
    term e (if e.1 = v ∨ e.2 = v then -x else x) k j = sg v k * sg v j * term e x k j := by
  unfold term sg
  by_cases h1 : k = e.2 ∧ j = e.1
  · obtain ⟨rfl, rfl⟩ := h1
    have h2 : ¬ (e.2 = e.1 ∧ e.1 = e.2) := fun h => hne h.2
    simp only [true_and, and_self, if_true, h2, if_false]
    by_cases a : e.1 = v <;> by_cases b : e.2 = v <;> simp [a, b]
    · exact absurd (a.trans b.symm) hne
  · by_cases h2 : k = e.1 ∧ j = e.2
    · obtain ⟨rfl, rfl⟩ := h2
      simp only [h1, if_false, and_self, if_true]
      by_cases a : e.1 = v <;> by_cases b : e.2 = v <;> simp [a, b]
      · exact absurd (a.trans b.symm) hne
    · simp [h1, h2]

/-- flipping every bond at vertex `v` conjugates `A` by the diagonal sign matrix `σ_v`:
    `A'[k,j] = σ(k)·σ(j)·A[k,j]` -/
theorem majEntry_gauge (edges : List (V × V)) (hloop : ∀ e ∈ edges, e.1 ≠ e.2) (w : List Int) (v k j : V) :
    majEntry edges (gaugeW edges w v) k j = sg v k * sg v j * majEntry edges w k j := by
  unfold majEntry gaugeW
  induction edges generalizing w with
  | nil => simp
  | cons e es ih =>
    cases w with
    | nil => simp
    | cons x xs =>
      simp only [List.zip_cons_cons, List.map_cons, List.sum_cons]
      rw [ih (fun e he => hloop e (by simp [he])) xs, term_gauge e (hloop e (by simp)) x v k j]
      ring

/-! ### relabelling (integer level) -/

theorem majEntry_relabel {W : Type} [DecidableEq W] (ρ : V → W) (hρ : Function.Injective ρ)
    (edges : List (V × V)) (w : List Int) (k j : V) :
    majEntry (edges.map fun e => (ρ e.1, ρ e.2)) w (ρ k) (ρ j) = majEntry edges w k j := by
  unfold majEntry
  induction edges generalizing w with
  | nil => simp
  | cons e es ih =>
    cases w with
    | nil => simp
    | cons x xs =>
      simp only [List.map_cons, List.zip_cons_cons, List.sum_cons, ih xs]
      congr 1
      unfold term
      simp only [hρ.eq_iff]

/-! ### the matrices -/

variable [Fintype V]

/-- the integer matrix as a complex matrix -/
def A (edges : List (V × V)) (w : List Int) : Matrix V V ℂ := Matrix.of fun k j => ((majEntry edges w k j : Int) : ℂ)

/-- `majorana_hamiltonian = (i/4)·A` -/
noncomputable def H (edges : List (V × V)) (w : List Int) : Matrix V V ℂ := (Complex.I / 4) • A edges w

theorem A_transpose (edges : List (V × V)) (w : List Int) : (A edges w)ᵀ = - A edges w := by
  ext k j
  simp only [A, transpose_apply, of_apply, Matrix.neg_apply]
  rw [majEntry_antisymm edges w j k]
  push_cast
  ring

/-- **antisymmetric** -/
theorem H_transpose (edges : List (V × V)) (w : List Int) : (H edges w)ᵀ = - H edges w := by
  unfold H
  rw [transpose_smul, A_transpose, smul_neg]

/-- **purely imaginary**: every entry is `i` times a real number -/
theorem H_imaginary (edges : List (V × V)) (w : List Int) (k j : V) : (H edges w k j).re = 0 := by
  simp [H, A, Matrix.smul_apply, Complex.mul_re, Complex.div_re, Complex.div_im]

/-- **Hermitian** -/
theorem H_hermitian (edges : List (V × V)) (w : List Int) : (H edges w).IsHermitian := by
  ext k j
  simp only [H, A, conjTranspose_apply, Matrix.smul_apply, of_apply, smul_eq_mul, star_mul', Complex.star_def]
  rw [majEntry_antisymm edges w j k]
  simp only [map_div₀, Complex.conj_I, map_intCast, map_neg, map_ofNat, Int.cast_neg]
  ring

/-- **spectrum symmetric about zero**: `det(x − H) = (−1)^n · det(−x − H)` for every `x`, so `x` is an
    eigenvalue iff `−x` is, with the same multiplicity -/
theorem spectrum_symm (edges : List (V × V)) (w : List Int) (x : ℂ) :
    (Matrix.scalar V x - H edges w).det = (-1) ^ Fintype.card V * (Matrix.scalar V (-x) - H edges w).det := by
  have h1 : (Matrix.scalar V x - H edges w)ᵀ = -(Matrix.scalar V (-x) - H edges w) := by
    rw [transpose_sub, H_transpose]
    ext k j
    by_cases hkj : k = j
    · subst hkj; simp [Matrix.scalar_apply, transpose_apply]; ring
    · simp [Matrix.scalar_apply, transpose_apply, hkj, Ne.symm hkj, diagonal_apply_ne]
  rw [← det_transpose, h1, det_neg]

/-- the diagonal sign matrix of a gauge move -/
def Dg (v : V) : Matrix V V ℂ := diagonal fun x => ((sg v x : Int) : ℂ)

theorem Dg_sq (v : V) : Dg v * Dg v = 1 := by
  unfold Dg
  rw [diagonal_mul_diagonal]
  have : (fun x => (((sg v x : Int) : ℂ)) * ((sg v x : Int) : ℂ)) = fun _ => (1 : ℂ) := by
    funext x; unfold sg; split <;> simp
  rw [this, diagonal_one]

theorem A_gauge (edges : List (V × V)) (hloop : ∀ e ∈ edges, e.1 ≠ e.2) (w : List Int) (v : V) :
    A edges (gaugeW edges w v) = Dg v * A edges w * Dg v := by
  ext k j
  simp only [A, Dg, of_apply, diagonal_mul, mul_diagonal]
  rw [majEntry_gauge edges hloop w v k j]
  push_cast
  ring

/-- **gauge invariance of the spectrum** -/
theorem gauge_charpoly (edges : List (V × V)) (hloop : ∀ e ∈ edges, e.1 ≠ e.2) (w : List Int) (v : V) :
    (H edges (gaugeW edges w v)).charpoly = (H edges w).charpoly := by
  have hconj : H edges (gaugeW edges w v) = Dg v * H edges w * Dg v := by
    unfold H
    rw [A_gauge edges hloop w v, Matrix.mul_smul, Matrix.smul_mul, Matrix.mul_assoc]
  rw [hconj, Matrix.mul_assoc, charpoly_mul_comm, Matrix.mul_assoc, Dg_sq, Matrix.mul_one]

/-- **relabelling invariance of the spectrum**, for any bijection of the vertices (permutations, the
    sublattice bisection) -/
theorem relabel_charpoly {W : Type} [DecidableEq W] [Fintype W] (σ : V ≃ W) (edges : List (V × V)) (w : List Int) :
    (H (edges.map fun e => (σ e.1, σ e.2)) w).charpoly = (H edges w).charpoly := by
  have : H (edges.map fun e => (σ e.1, σ e.2)) w = Matrix.reindex σ σ (H edges w) := by
    ext k j
    simp only [H, A, Matrix.smul_apply, of_apply, reindex_apply, submatrix_apply]
    congr 2
    have := majEntry_relabel (σ : V → W) σ.injective edges w (σ.symm k) (σ.symm j)
    simpa using this
  rw [this, charpoly_reindex]

/-! ### the fermionic form -/

section fermion
variable {n : Type} [Fintype n] [DecidableEq n]
open Complex

/-- Majorana Hamiltonian in block form through the three real blocks the code extracts:
    `F = -i·H[:s,:s]`, `D = i·H[s:,s:]`, `M = -i·H[:s,s:]` (and `H[s:,:s] = -H[:s,s:]ᵀ`) -/
def majBlocks (F D M : Matrix n n ℂ) : Matrix (n ⊕ n) (n ⊕ n) ℂ :=
  fromBlocks (I • F) (I • M) (-(I • Mᵀ)) (-(I • D))

/-- `majorana_to_fermion_ham` -/
def fermion (F D M : Matrix n n ℂ) : Matrix (n ⊕ n) (n ⊕ n) ℂ :=
  let h := (M + Mᵀ) + I • (F - D)
  let d := (Mᵀ - M) + I • (F + D)
  fromBlocks h d dᴴ (-hᵀ)

def S : Matrix (n ⊕ n) (n ⊕ n) ℂ := fromBlocks 1 (I • 1) 1 (-(I • 1))
noncomputable def Sinv : Matrix (n ⊕ n) (n ⊕ n) ℂ := (1 / 2 : ℂ) • fromBlocks 1 1 (-(I • 1)) (I • 1)

theorem fermion_mul_S (F D M : Matrix n n ℂ)
    (hFt : Fᵀ = -F) (hFh : Fᴴ = -F) (hDt : Dᵀ = -D) (hDh : Dᴴ = -D) (hMh : Mᴴ = Mᵀ) (hMth : Mᵀᴴ = M) :
    fermion F D M * S = S * ((2 : ℂ) • majBlocks F D M) := by
  have hI : (I : ℂ) * I = -1 := Complex.I_mul_I
  unfold fermion S majBlocks
  simp only [fromBlocks_smul, fromBlocks_multiply, Matrix.mul_one, Matrix.one_mul, Matrix.mul_smul,
    Matrix.smul_mul, Matrix.mul_neg, Matrix.neg_mul, conjTranspose_add, conjTranspose_sub,
    conjTranspose_smul, transpose_add, transpose_sub, transpose_smul, transpose_transpose,
    hFt, hFh, hDt, hDh, hMh, hMth, Complex.star_def, Complex.conj_I]
  congr 1 <;> (ext i j; simp [smul_smul] <;> ring_nf <;> simp [Complex.I_sq] <;> ring)

theorem S_mul_Sinv : (S : Matrix (n ⊕ n) (n ⊕ n) ℂ) * Sinv = 1 := by
  have hI : (I : ℂ) * I = -1 := Complex.I_mul_I
  unfold S Sinv
  rw [Matrix.mul_smul, fromBlocks_multiply, fromBlocks_smul, ← fromBlocks_one]
  congr 1 <;> (ext i j; by_cases h : i = j <;> simp [h, smul_smul, Matrix.one_apply] <;> ring_nf <;> simp [Complex.I_sq] <;> ring)

theorem Sinv_mul_S : (Sinv : Matrix (n ⊕ n) (n ⊕ n) ℂ) * S = 1 := by
  have hI : (I : ℂ) * I = -1 := Complex.I_mul_I
  unfold S Sinv
  rw [Matrix.smul_mul, fromBlocks_multiply, fromBlocks_smul, ← fromBlocks_one]
  congr 1 <;> (ext i j; by_cases h : i = j <;> simp [h, smul_smul, Matrix.one_apply] <;> ring_nf <;> simp [Complex.I_sq] <;> ring)

/-- **the fermionic spectrum is exactly twice the Majorana spectrum**: `H_f = S·(2H)·S⁻¹` -/
theorem fermion_charpoly (F D M : Matrix n n ℂ)
    (hFt : Fᵀ = -F) (hFh : Fᴴ = -F) (hDt : Dᵀ = -D) (hDh : Dᴴ = -D) (hMh : Mᴴ = Mᵀ) (hMth : Mᵀᴴ = M) :
    (fermion F D M).charpoly = ((2 : ℂ) • majBlocks F D M).charpoly := by
  have h : fermion F D M = S * ((2 : ℂ) • majBlocks F D M) * Sinv := by
    rw [← fermion_mul_S F D M hFt hFh hDt hDh hMh hMth, Matrix.mul_assoc, S_mul_Sinv, Matrix.mul_one]
  rw [h, Matrix.mul_assoc, charpoly_mul_comm, Matrix.mul_assoc, Sinv_mul_S, Matrix.mul_one]

/-- **Hermitian with Bogoliubov–de Gennes block structure** `[[h, d], [d†, −hᵀ]]` (the block structure is the
    definition; Hermiticity needs `h† = h`, which holds for real antisymmetric `F, D` and real `M`) -/
theorem fermion_hermitian (F D M : Matrix n n ℂ)
    (hFh : Fᴴ = -F) (hDh : Dᴴ = -D) (hMh : Mᴴ = Mᵀ) (hMth : Mᵀᴴ = M) (hFt : Fᵀ = -F) (hDt : Dᵀ = -D) :
    (fermion F D M).IsHermitian := by
  unfold fermion Matrix.IsHermitian
  simp only [fromBlocks_conjTranspose, conjTranspose_conjTranspose]
  congr 1
  · simp only [conjTranspose_add, conjTranspose_sub, conjTranspose_smul, hFh, hDh, hMh, hMth, Complex.star_def, Complex.conj_I]
    ext i j; simp; ring
  · simp only [conjTranspose_neg, conjTranspose_transpose, conjTranspose_add, conjTranspose_sub, conjTranspose_smul,
      transpose_add, transpose_sub, transpose_smul, transpose_transpose, hFh, hDh, hMh, hMth, hFt, hDt,
      Complex.star_def, Complex.conj_I]
    ext i j; simp; ring

end fermion

/-! ### bisection: the halves separate the dimers, whatever permutation `argsort` returns -/

/-- a non-decreasing list of zeros and ones has its zeros first: position `i` holds a zero iff `i` is below the number of zeros -/
theorem sorted01_split : ∀ (l : List Nat), l.Pairwise (· ≤ ·) → (∀ x ∈ l, x ≤ 1) →
    ∀ i (hi : i < l.length), (l[i] = 0 ↔ i < l.count 0) := by
  intro l
  induction l with
  | nil => intro _ _ i hi; simp at hi
  | cons a t ih =>
    intro hs h01 i hi
    rw [List.pairwise_cons] at hs
    have h01t : ∀ x ∈ t, x ≤ 1 := fun x hx => h01 x (List.mem_cons_of_mem _ hx)
    by_cases ha : a = 0
    · subst ha
      cases i with
      | zero => simp
      | succ i =>
        have hi' : i < t.length := by simpa using hi
        simp only [List.getElem_cons_succ, List.count_cons_self]
        rw [ih hs.2 h01t i hi']
        omega
    · have ha1 : a = 1 := by have := h01 a (by simp); omega
      subst ha1
      have hall : ∀ x ∈ t, x = 1 := fun x hx => by have := hs.1 x hx; have := h01t x hx; omega
      have hc : (1 :: t).count 0 = 0 := by
        rw [List.count_eq_zero]
        intro h
        rcases List.mem_cons.mp h with h | h
        · omega
        · have := hall 0 h; omega
      rw [hc]
      constructor
      · intro h0
        have hm : (1 :: t)[i] ∈ (1 :: t) := List.getElem_mem hi
        rw [h0] at hm
        rcases List.mem_cons.mp hm with h | h
        · omega
        · have := hall 0 h; omega
      · intro h; omega

/-- **C07 (bisection)**: whatever permutation `argsort` returns for the 0/1 sublattice labels, a vertex labelled 0
    lands in the first block and a vertex labelled 1 in the second, the boundary being the number of zero labels — so
    every dimer of the chosen colour (first end labelled 0, second end labelled 1) joins the two halves -/
theorem bisect_halves (n : Nat) (ordering : List Nat) (hp : C12.IsPerm n ordering) (labels : Nat → Nat) (h01 : ∀ v, labels v ≤ 1)
    (hs : (ordering.map labels).Pairwise (· ≤ ·)) (a b : Nat) (ha : a < n) (hb : b < n) (hla : labels a = 0) (hlb : labels b = 1) :
    ordering.idxOf a < (ordering.map labels).count 0 ∧ (ordering.map labels).count 0 ≤ ordering.idxOf b := by
  have hma := hp.mem a ha
  have hmb := hp.mem b hb
  have hia : ordering.idxOf a < ordering.length := List.idxOf_lt_length_iff.mpr hma
  have hib : ordering.idxOf b < ordering.length := List.idxOf_lt_length_iff.mpr hmb
  have h01' : ∀ x ∈ ordering.map labels, x ≤ 1 := by
    intro x hx; obtain ⟨v, _, rfl⟩ := List.mem_map.mp hx; exact h01 v
  have ga := sorted01_split (ordering.map labels) hs h01' (ordering.idxOf a) (by simpa using hia)
  have gb := sorted01_split (ordering.map labels) hs h01' (ordering.idxOf b) (by simpa using hib)
  simp only [List.getElem_map, List.getElem_idxOf] at ga gb
  constructor
  · exact ga.mp hla
  · by_contra hlt
    have := gb.mpr (by omega)
    omega

/-- the boundary between the halves is the number of vertices labelled 0 (half of them for a perfect matching) -/
theorem zero_count (n : Nat) (ordering : List Nat) (hp : C12.IsPerm n ordering) (labels : Nat → Nat) :
    (ordering.map labels).count 0 = ((List.range n).map labels).count 0 := by
  have hsub : ordering ⊆ List.range n := fun x hx => List.mem_range.mpr (hp.lt x hx)
  have hperm : ordering.Perm (List.range n) := (hp.nodup.subperm hsub).perm_of_length_le (by simp [hp.len])
  exact (hperm.map labels).count_eq 0

end C07
