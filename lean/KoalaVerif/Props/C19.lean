import KoalaVerif.Model.Points
import KoalaVerif.Props.C15
import Mathlib.Data.List.Basic
import Mathlib.Tactic.Ring

/-! # C19 — point-set generators stay in the unit square, keep spacing, and are reproducible

The dart-throwing loop is modelled as a fold over the stream of random draws; the invariant below holds for *every*
stream, every number of attempts `k` and every grid shape.  Random-state non-interference is the effect-IR
obligation `noGlobalRng` generated from the source for every function that takes a generator
(`GenEff.pointsets__*_rng`), whose meaning is `C15.noGlobalRng_sound`. -/

namespace C19
open Points

/-- all samples inside `[0, nx] × [0, ny]`, pairwise farther apart than the grid spacing (`dist² > S²`) -/
structure Good (S : Int) (nx ny : Nat) (samples : List Pt) : Prop where
  bounds : ∀ p ∈ samples, inBounds S nx ny p = true
  spaced : samples.Pairwise fun a b => dist2 a b > S ^ 2

theorem firstAccepted_spec (S : Int) (nx ny : Nat) (samples cands : List Pt) (c : Pt)
    (h : firstAccepted S nx ny samples cands = some c) :
    c ∈ cands ∧ inBounds S nx ny c = true ∧ farFromAll S samples c = true := by
  induction cands with
  | nil => simp [firstAccepted] at h
  | cons x xs ih =>
    unfold firstAccepted at h
    split at h
    · rename_i hx
      injection h with h; subst h
      simp only [Bool.and_eq_true] at hx
      exact ⟨by simp, hx.1, hx.2⟩
    · obtain ⟨h1, h2, h3⟩ := ih h
      exact ⟨by simp [h1], h2, h3⟩

/-- one iteration keeps the invariant -/
theorem step_good (S : Int) (nx ny k : Nat) (s : St) (it : Nat × List Pt) (h : Good S nx ny s.samples) :
    Good S nx ny (step S nx ny k s it).samples := by
  unfold step
  split
  · rename_i c hc
    obtain ⟨_, hb, hf⟩ := firstAccepted_spec S nx ny s.samples _ c hc
    refine ⟨?_, ?_⟩
    · intro p hp
      rcases List.mem_append.mp hp with hp | hp
      · exact h.bounds p hp
      · simp only [List.mem_singleton] at hp; subst hp; exact hb
    · rw [List.pairwise_append]
      refine ⟨h.spaced, List.pairwise_singleton _ _, ?_⟩
      intro a ha b hb'
      simp only [List.mem_singleton] at hb'; subst hb'
      unfold farFromAll at hf
      rw [List.all_eq_true] at hf
      simpa using hf a ha
  · exact h

/-- **C19 blue noise, for every stream of draws**: whatever the generator produces, after any number of iterations
    every sample lies in `[0,nx] × [0,ny]` (so the normalised points lie in the unit square) and any two samples are
    more than one grid spacing apart -/
theorem bluenoise_invariant (S : Int) (nx ny k : Nat) (x0 : Pt) (hx0 : inBounds S nx ny x0 = true)
    (its : List (Nat × List Pt)) : Good S nx ny (run S nx ny k x0 its).samples := by
  unfold run
  have h0 : Good S nx ny ({ samples := [x0], active := [0] } : St).samples :=
    ⟨by intro p hp; simp only [List.mem_singleton] at hp; subst hp; exact hx0, List.pairwise_singleton _ _⟩
  generalize ({ samples := [x0], active := [0] } : St) = s0 at h0
  induction its generalizing s0 with
  | nil => exact h0
  | cons it its ih => exact ih _ (step_good S nx ny k s0 it h0)

/-- samples are only ever appended: indices handed out earlier stay valid, the number of points never decreases -/
theorem samples_grow (S : Int) (nx ny k : Nat) (s : St) (it : Nat × List Pt) :
    s.samples <+: (step S nx ny k s it).samples := by
  unfold step
  split
  · exact List.prefix_append _ _
  · exact List.prefix_refl _

/-- an iteration either adds a sample or retires one active entry: with a finite stream the loop's measure
    `(#free space, #active)` is what the (probabilistic) termination argument uses; the model makes the bookkeeping exact -/
theorem step_progress (S : Int) (nx ny k : Nat) (s : St) (it : Nat × List Pt) (hit : it.1 < s.active.length) :
    (step S nx ny k s it).samples.length = s.samples.length + 1 ∨
    ((step S nx ny k s it).samples = s.samples ∧ (step S nx ny k s it).active.length + 1 = s.active.length) := by
  unfold step
  split
  · left; simp
  · right; exact ⟨rfl, by simp [List.length_eraseIdx, hit]; omega⟩

/-- **hyperuniform**: every returned point lies strictly inside the unit square, whatever kicks were drawn -/
theorem hyperuniform_in_open_square (S : Int) (ps : List Pt) (p : Pt) (hp : p ∈ crop S ps) :
    0 < p.1 ∧ 0 < p.2 ∧ p.1 < S ∧ p.2 < S := by
  unfold crop at hp
  have := (List.mem_filter.mp hp).2
  simpa [and_assoc] using this

/-- the crop returns a sub-list of the generated points (no point is moved or invented) -/
theorem crop_sublist (S : Int) (ps : List Pt) : (crop S ps).Sublist ps := List.filter_sublist

/-! ### non-vacuity -/
example : (run 4 2 2 3 (1, 1) [(0, [(9, 1), (6, 1)]), (0, [(2, 2)]), (0, [(1, 2), (2, 1), (0, 0)])]).samples = [(1, 1), (6, 1)] := by decide
example : (run 4 2 2 3 (1, 1) [(0, [(9, 1), (6, 1)]), (0, [(2, 2)]), (0, [(1, 2), (2, 1), (0, 0)])]).active = [] := by decide

end C19
