import KoalaVerif.Lemmas.Walk
import Mathlib.Data.List.Rotate
import Mathlib.Algebra.BigOperators.Group.List.Basic
import Mathlib.Tactic.Ring
import Mathlib.Tactic.Linarith

/-! # C01 — plaquettes are exactly the legitimate faces of the embedded graph

All statements are about the *executable* model of `koala.lattice` in `Model/Lattice.lean`
(`rotAt`, `nextD`, `trace`, `walkFrom`, `allWalks`, `analyse`, `plaquettes`), for every lattice
`L` without self-loops — no bound on the number of vertices or edges.  The correspondence check
(`harness/props/c01.py`) runs exactly these definitions against `Lattice.plaquettes`. -/

open Function

namespace C01

variable (L : Lat)

/-- the face permutation of the geometric rotation system -/
abbrev next (L : Lat) : Dart → Dart := nextD L (rotAt L)

/-- a walk is closed and consistent when the head of each dart is the tail of the next, cyclically:
    "taking the i-th edge in the i-th direction leads from the i-th vertex to the (i+1)-th" -/
def ClosedWalk (L : Lat) (w : List Dart) : Prop := w.map L.head = (w.map L.tail).rotate 1

/-- C01.1: without self-loops the rotation system computed from the geometry is well formed:
    every list is a duplicate-free enumeration of the edges at that vertex. -/
theorem rotation_system_wellformed (hL : L.noSelfLoop = true) : WF L (rotAt L) := rotAt_wf L hL

/-- C01.2: the step of the tracer is a permutation of the valid darts: it maps valid darts to valid
    darts, is injective, and the new dart leaves the vertex the old one arrived at. -/
theorem next_is_permutation (hL : L.noSelfLoop = true) :
    (∀ d : Dart, d.1 < L.E → (next L d).1 < L.E) ∧
    (∀ d : Dart, d.1 < L.E → L.tail (next L d) = L.head d) ∧
    (∀ d1 d2 : Dart, d1.1 < L.E → d2.1 < L.E → next L d1 = next L d2 → d1 = d2) :=
  ⟨fun _ hd => nextD_valid (rotAt_wf L hL) hd, fun _ hd => tail_nextD (rotAt_wf L hL) hd,
   fun _ _ h1 h2 he => nextD_inj (rotAt_wf L hL) h1 h2 he⟩

/-- C01.3: the tracer never gets stuck and never runs out of fuel (the `LatticeException` branch is
    dead on loop-free input): started at any valid dart it returns the orbit of that dart under
    `next`, listed once — `p` steps, `p` the least period, all darts distinct, and the next step
    after the last dart leads back to the start. -/
theorem trace_never_stuck (hL : L.noSelfLoop = true) (d : Dart) (hd : d.1 < L.E) :
    ∃ p, 0 < p ∧ p ≤ 2 * L.E ∧
      trace (next L) d (2 * L.E + 1) = some (List.iterate (next L) d p) ∧
      walkFrom L (rotAt L) d = List.iterate (next L) d p ∧
      (next L)^[p] d = d ∧ (List.iterate (next L) d p).Nodup := by
  let W := walkData L (rotAt L) (rotAt_wf L hL) hd
  refine ⟨W.p, W.pos, W.le, W.traced, walkFrom_eq L (rotAt L) (rotAt_wf L hL) hd, W.per, ?_⟩
  rw [List.nodup_iff_getElem?_ne_getElem?]
  intro i j hij hj
  simp only [List.length_iterate] at hj
  have hi : i < W.p := by omega
  rw [List.getElem?_eq_getElem (by simpa using hi), List.getElem?_eq_getElem (by simpa using hj)]
  simp only [List.getElem_iterate]
  intro heq
  have := W.inj i j hi hj (Option.some.inj heq)
  omega

/-- the model never reports `stuck` on a lattice without self-loops -/
theorem anyStuck_false (hL : L.noSelfLoop = true) : anyStuck L (rotAt L) = false := by
  unfold anyStuck
  rw [List.any_eq_false]
  intro d hd
  have hv : d.1 < L.E := by
    unfold dartOrder at hd
    simp only [List.mem_flatMap, List.mem_range] at hd
    obtain ⟨e, he, hm⟩ := hd
    simp at hm
    rcases hm with rfl | rfl <;> exact he
  obtain ⟨p, _, _, ht, _⟩ := trace_never_stuck L hL d hv
  simp [next] at ht
  simp [ht]

/-- C01.4: every traced walk is a consistent closed walk. -/
theorem walk_consistent (hL : L.noSelfLoop = true) (d : Dart) (hd : d.1 < L.E) :
    ClosedWalk L (walkFrom L (rotAt L) d) := by
  have wf := rotAt_wf L hL
  let W := walkData L (rotAt L) wf hd
  rw [walkFrom_eq L (rotAt L) wf hd]
  unfold ClosedWalk
  apply List.ext_getElem
  · simp
  · intro i h1 h2
    have hi : i < W.p := by simpa using h1
    rw [List.getElem_rotate]
    simp only [List.getElem_map, List.getElem_iterate, List.length_map, List.length_iterate]
    have hstep : (nextD L (rotAt L))^[(i + 1) % W.p] d = nextD L (rotAt L) ((nextD L (rotAt L))^[i] d) := by
      rw [iter_mod L (rotAt L) wf W (i + 1), iterate_succ_apply']
    show L.head ((nextD L (rotAt L))^[i] d) = L.tail ((nextD L (rotAt L))^[(i + 1) % W.p] d)
    rw [hstep, tail_nextD wf (iter_valid L (rotAt L) wf hd i)]

/-! ### directed edge vectors of a closed walk sum to its net boundary crossing -/

theorem dvec_fst (d : Dart) :
    (L.dvec d).1 = (L.posOf (L.head d)).1 - (L.posOf (L.tail d)).1 + dirSign d * (L.crossOf d.1).1 * L.scale := by
  obtain ⟨e, b⟩ := d
  cases b <;> simp [Lat.dvec, Lat.evec, Lat.head, Lat.tail, dirSign] <;> ring

theorem dvec_snd (d : Dart) :
    (L.dvec d).2 = (L.posOf (L.head d)).2 - (L.posOf (L.tail d)).2 + dirSign d * (L.crossOf d.1).2 * L.scale := by
  obtain ⟨e, b⟩ := d
  cases b <;> simp [Lat.dvec, Lat.evec, Lat.head, Lat.tail, dirSign] <;> ring

theorem sum_head_eq_sum_tail (w : List Dart) (hc : ClosedWalk L w) (φ : Nat → Int) :
    (w.map fun d => φ (L.head d)).sum = (w.map fun d => φ (L.tail d)).sum := by
  have e1 : (w.map fun d => φ (L.head d)) = (w.map L.head).map φ := by simp
  have e2 : (w.map fun d => φ (L.tail d)) = (w.map L.tail).map φ := by simp
  rw [e1, e2, hc, List.map_rotate]
  exact List.Perm.sum_eq (List.rotate_perm _ 1)

theorem sum_map_sub' (w : List Dart) (f g : Dart → Int) :
    (w.map fun d => f d - g d).sum = (w.map f).sum - (w.map g).sum := by
  induction w with
  | nil => simp
  | cons a t ih => simp only [List.map_cons, List.sum_cons, ih]; ring

theorem sum_map_mul_right' (w : List Dart) (f : Dart → Int) (c : Int) :
    (w.map fun d => f d * c).sum = (w.map f).sum * c := by
  induction w with
  | nil => simp
  | cons a t ih => simp only [List.map_cons, List.sum_cons, ih]; ring

/-- C01.5: for every consistent closed walk the directed edge vectors sum to the net crossing
    (times the scale) — the positions telescope.  In particular a contractible walk
    (net crossing zero) has directed edge vectors that sum to zero. -/
theorem sum_vectors_eq_net_crossing (w : List Dart) (hc : ClosedWalk L w) :
    (w.map fun d => (L.dvec d).1).sum = (w.map fun d => dirSign d * (L.crossOf d.1).1).sum * L.scale ∧
    (w.map fun d => (L.dvec d).2).sum = (w.map fun d => dirSign d * (L.crossOf d.1).2).sum * L.scale := by
  constructor
  · have h1 := sum_head_eq_sum_tail L w hc (fun v => (L.posOf v).1)
    have : (w.map fun d => (L.dvec d).1)
        = w.map fun d => ((L.posOf (L.head d)).1 - (L.posOf (L.tail d)).1) + dirSign d * (L.crossOf d.1).1 * L.scale := by
      apply List.map_congr_left; intro d _; exact dvec_fst L d
    rw [this, List.sum_map_add, sum_map_sub', h1, sub_self, zero_add, sum_map_mul_right']
  · have h1 := sum_head_eq_sum_tail L w hc (fun v => (L.posOf v).2)
    have : (w.map fun d => (L.dvec d).2)
        = w.map fun d => ((L.posOf (L.head d)).2 - (L.posOf (L.tail d)).2) + dirSign d * (L.crossOf d.1).2 * L.scale := by
      apply List.map_congr_left; intro d _; exact dvec_snd L d
    rw [this, List.sum_map_add, sum_map_sub', h1, sub_self, zero_add, sum_map_mul_right']

theorem netCross_eq_sums (w : List Dart) :
    netCross L w = ((w.map fun d => dirSign d * (L.crossOf d.1).1).sum,
                    (w.map fun d => dirSign d * (L.crossOf d.1).2).sum) := by
  unfold netCross
  have gen : ∀ (acc : Int × Int),
      w.foldl (fun (acc : Int × Int) d => let c := L.crossOf d.1
                                          (acc.1 + dirSign d * c.1, acc.2 + dirSign d * c.2)) acc
      = (acc.1 + (w.map fun d => dirSign d * (L.crossOf d.1).1).sum,
         acc.2 + (w.map fun d => dirSign d * (L.crossOf d.1).2).sum) := by
    induction w with
    | nil => intro acc; simp
    | cons a t ih => intro acc; simp only [List.foldl_cons, List.map_cons, List.sum_cons]; rw [ih]; simp [add_assoc]
  simpa using gen (0, 0)

/-- corollary: a contractible traced walk (the `overall_crossings == 0` filter) closes up
    geometrically — its directed edge vectors sum to zero. -/
theorem contractible_vectors_sum_zero (hL : L.noSelfLoop = true) (d : Dart) (hd : d.1 < L.E)
    (hnet : netCross L (walkFrom L (rotAt L) d) = (0, 0)) :
    ((walkFrom L (rotAt L) d).map fun d => (L.dvec d).1).sum = 0 ∧
    ((walkFrom L (rotAt L) d).map fun d => (L.dvec d).2).sum = 0 := by
  have hc := walk_consistent L hL d hd
  obtain ⟨h1, h2⟩ := sum_vectors_eq_net_crossing L _ hc
  rw [netCross_eq_sums] at hnet
  have a := congrArg Prod.fst hnet
  have b := congrArg Prod.snd hnet
  simp only at a b
  rw [h1, h2, a, b]; simp

/-! ### the sweep: every face exactly once, no directed edge in two plaquettes -/

theorem dartOrder_valid (d : Dart) (hd : d ∈ dartOrder L.E) : d.1 < L.E := by
  unfold dartOrder at hd
  simp only [List.mem_flatMap, List.mem_range] at hd
  obtain ⟨e, he, hm⟩ := hd
  simp at hm
  rcases hm with rfl | rfl <;> exact he

theorem mem_dartOrder (d : Dart) (hd : d.1 < L.E) : d ∈ dartOrder L.E := by
  unfold dartOrder
  simp only [List.mem_flatMap, List.mem_range]
  refine ⟨d.1, hd, ?_⟩
  obtain ⟨e, b⟩ := d
  cases b <;> simp

/-- C01.6: the walks found by the sweep are whole faces (orbits of `next`), pairwise
    dart-disjoint, and every one of the 2E darts lies on one of them: each face of the embedding is
    produced exactly once and **no directed edge belongs to two walks**. -/
theorem sweep_partition (hL : L.noSelfLoop = true) :
    (∀ w ∈ allWalks L (rotAt L), ∃ d, d.1 < L.E ∧ w = walkFrom L (rotAt L) d) ∧
    (allWalks L (rotAt L)).Pairwise List.Disjoint ∧
    (∀ d : Dart, d.1 < L.E → ∃ w ∈ allWalks L (rotAt L), d ∈ w) := by
  have wf := rotAt_wf L hL
  obtain ⟨h1, h2, h3⟩ := sweep_partition_gen (walkFrom_orbitLike L (rotAt L) wf) (dartOrder L.E)
    (dartOrder_valid L)
  refine ⟨?_, h2, ?_⟩
  · intro w hw; obtain ⟨d, hd, rfl⟩ := h1 w hw; exact ⟨d, dartOrder_valid L d hd, rfl⟩
  · intro d hd; exact h3 d (mem_dartOrder L d hd)

theorem allWalks_nodup (hL : L.noSelfLoop = true) : (allWalks L (rotAt L)).Nodup := by
  obtain ⟨h1, h2, _⟩ := sweep_partition L hL
  have wf := rotAt_wf L hL
  refine List.Pairwise.imp_of_mem ?_ h2
  intro a b ha _ hdis hab
  obtain ⟨d, hd, rfl⟩ := h1 a ha
  have hm : d ∈ walkFrom L (rotAt L) d := (walkFrom_orbitLike L (rotAt L) wf).self_mem d hd
  exact hdis hm (hab ▸ hm)

/-- the dart cycles of the reported plaquettes -/
def plaquetteWalks (L : Lat) : List (List Dart) := (plaquettes L (rotAt L)).map (·.darts)

theorem plaquetteWalks_eq : plaquetteWalks L = (allWalks L (rotAt L)).filter fun w => (analyse L w).valid := by
  unfold plaquetteWalks plaquettes
  rw [List.filter_map, List.map_map]
  have : ((fun x : Plaq => x.darts) ∘ analyse L) = id := by funext w; rfl
  rw [this, List.map_id]; rfl

/-- C01.7: **no directed edge belongs to two plaquettes**, and no plaquette is reported twice. -/
theorem plaquettes_dart_disjoint (hL : L.noSelfLoop = true) :
    (plaquetteWalks L).Pairwise List.Disjoint ∧ (plaquetteWalks L).Nodup := by
  rw [plaquetteWalks_eq]
  exact ⟨(sweep_partition L hL).2.1.sublist List.filter_sublist,
         (allWalks_nodup L hL).sublist List.filter_sublist⟩

/-- C01.8: the reported plaquettes are exactly the faces (orbits of `next`, each listed from the
    first of its darts in sweep order) that pass the three legitimacy tests: no edge twice, no net
    boundary crossing, turning number −1. -/
theorem plaquettes_eq_legit_faces (hL : L.noSelfLoop = true) (w : List Dart) :
    w ∈ plaquetteWalks L ↔
      (w ∈ allWalks L (rotAt L)) ∧ (analyse L w).noRepeat = true ∧ (analyse L w).net = (0, 0) ∧
        (analyse L w).w = -1 := by
  rw [plaquetteWalks_eq, List.mem_filter]
  have : (analyse L w).valid = ((analyse L w).noRepeat && (analyse L w).net == (0, 0) && (analyse L w).w == -1) := rfl
  rw [this]
  simp [and_assoc]

/-- Full-strength statement with "positive area" in place of "turning number −1".  The equivalence
    of the two for closed edge-simple contractible face walks of a straight-line embedding is Hopf's
    Umlaufsatz, which is *not* proved here: it is the explicit hypothesis `umlauf`, and the harness
    evaluates it exactly (integer arithmetic) on every generated input. -/
theorem plaquettes_eq_positive_area_faces_partial (hL : L.noSelfLoop = true)
    (umlauf : ∀ w ∈ allWalks L (rotAt L), (analyse L w).noRepeat = true → (analyse L w).net = (0, 0) →
      ((analyse L w).w = -1 ↔ 0 < (analyse L w).area2))
    (w : List Dart) :
    w ∈ plaquetteWalks L ↔
      (w ∈ allWalks L (rotAt L)) ∧ (analyse L w).noRepeat = true ∧ (analyse L w).net = (0, 0) ∧
        0 < (analyse L w).area2 := by
  rw [plaquettes_eq_legit_faces L hL]
  constructor
  · rintro ⟨a, b, c, d⟩; exact ⟨a, b, c, (umlauf w a b c).mp d⟩
  · rintro ⟨a, b, c, d⟩; exact ⟨a, b, c, (umlauf w a b c).mpr d⟩

/-! ### non-vacuity: a concrete lattice meeting the hypotheses -/

/-- a triangle with a dangling edge -/
def exL : Lat := { nV := 4, edges := [(0, 1), (1, 2), (2, 0), (2, 3)],
                   cross := [(0, 0), (0, 0), (0, 0), (0, 0)], pos := [(0, 0), (4, 0), (0, 4), (1, 7)], scale := 8 }

example : exL.noSelfLoop = true := by decide
example : (plaquetteWalks exL) = [[(0, false), (1, false), (2, false)]] := by decide +kernel
example : (allWalks exL (rotAt exL)).length = 2 := by decide +kernel

end C01
