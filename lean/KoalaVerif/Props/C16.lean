import KoalaVerif.Model.Plot
import Mathlib.Data.Rat.Defs
import Mathlib.Algebra.Order.Field.Basic
import Mathlib.Tactic.Ring
import Mathlib.Tactic.Linarith
import Mathlib.Tactic.FieldSimp
import Mathlib.Tactic.Positivity
import Mathlib.Tactic.LinearCombination
import Mathlib.Tactic.NormNum
import Mathlib.Order.Lattice
import Mathlib.Algebra.Order.Ring.Rat

/-! # C16 — plots: the pure pieces

`intersection_iff`: the helper's test is equivalent to the existence of a common point, for every pair of non-parallel
segments over an ordered field.  `broadcast_spec`: per-element and per-subset-element labels give the same colours.
`tile9_alignment`: image `j` of edge `i` carries colour `i`.  `fractions_sum_one`: the nine periodic images of an edge show, inside the unit cell, fractions of it that add up to exactly 1
(exact clipping, the oracle the harness applies to the drawn artists).  `meets_visible` / `drawn_fractions_sum_one`: the mask `vis` of `plot_edges` (`_lines_cross_unit_cell | _line_fully_in_unit_cell`,
modelled in `Plot.visible`) is true for every image that meets the open cell, so the pieces actually drawn add up to the whole edge,
for every generic edge.  `needed_copies_drawn` / `polyOffsets_nodup`: `plot_plaquettes` draws every copy of a plaquette whose extent
meets the cell, and none twice (convex or not); `covered_point_drawn`: a point of the open cell inside a periodic copy of the polygon (even–odd rule)
is inside a copy that is drawn. -/

namespace C16
open Plot

/-! ### segment intersection -/

section
variable {K : Type} [Field K] [LinearOrder K] [IsStrictOrderedRing K]

def crossK (a b : K × K) : K := a.1 * b.2 - a.2 * b.1

/-- **the segment-intersection helper agrees with exact arithmetic**: for non-parallel segments
    `s1 + a·d1` (`a ∈ [0,1]`) and `s2 + b·d2` (`b ∈ [0,1]`), the code's `0 ≤ t1, t2 ≤ 1` holds iff the segments share a point -/
theorem intersection_iff (s1 d1 s2 d2 : K × K) (hnp : crossK d2 d1 ≠ 0) :
    let t1 := crossK (s1.1 - s2.1, s1.2 - s2.2) d1 / crossK d2 d1
    let t2 := crossK (s2.1 - s1.1, s2.2 - s1.2) d2 / crossK d1 d2
    (0 ≤ t1 ∧ t1 ≤ 1 ∧ 0 ≤ t2 ∧ t2 ≤ 1) ↔
      ∃ a b : K, 0 ≤ a ∧ a ≤ 1 ∧ 0 ≤ b ∧ b ≤ 1 ∧
        s1.1 + a * d1.1 = s2.1 + b * d2.1 ∧ s1.2 + a * d1.2 = s2.2 + b * d2.2 := by
  intro t1 t2
  have hnp' : crossK d1 d2 ≠ 0 := by
    intro h; apply hnp; unfold crossK at h ⊢; linarith
  have hD : d2.1 * d1.2 - d2.2 * d1.1 ≠ 0 := hnp
  have hD' : d1.1 * d2.2 - d1.2 * d2.1 ≠ 0 := hnp'
  constructor
  · rintro ⟨h1, h2, h3, h4⟩
    have e1 : t1 * (d2.1 * d1.2 - d2.2 * d1.1) = (s1.1 - s2.1) * d1.2 - (s1.2 - s2.2) * d1.1 := by
      simp only [t1, crossK]; exact div_mul_cancel₀ _ hD
    have e2 : t2 * (d2.1 * d1.2 - d2.2 * d1.1) = -((s2.1 - s1.1) * d2.2 - (s2.2 - s1.2) * d2.1) := by
      simp only [t2, crossK]
      rw [div_mul_eq_mul_div, div_eq_iff hD']; ring
    refine ⟨t2, t1, h3, h4, h1, h2, ?_, ?_⟩
    · apply mul_right_cancel₀ hD
      linear_combination d1.1 * e2 - d2.1 * e1
    · apply mul_right_cancel₀ hD
      linear_combination d1.2 * e2 - d2.2 * e1
  · rintro ⟨a, b, ha0, ha1, hb0, hb1, e1, e2⟩
    have hb : t1 = b := by
      simp only [t1, crossK]
      rw [div_eq_iff hD]
      have : s1.1 - s2.1 = b * d2.1 - a * d1.1 := by linarith
      have : s1.2 - s2.2 = b * d2.2 - a * d1.2 := by linarith
      simp only [*]
      ring
    have ha : t2 = a := by
      simp only [t2, crossK]
      rw [div_eq_iff hD']
      have : s2.1 - s1.1 = a * d1.1 - b * d2.1 := by linarith
      have : s2.2 - s1.2 = a * d1.2 - b * d2.2 := by linarith
      simp only [*]
      ring
    rw [hb, ha]
    exact ⟨hb0, hb1, ha0, ha1⟩
end

/-- the division-free test of the executable model is `0 ≤ n/d ≤ 1` -/
theorem unitFrac_iff (n d : Int) (hd : d ≠ 0) : unitFrac n d = true ↔ (0 : ℚ) ≤ (n : ℚ) / d ∧ (n : ℚ) / d ≤ 1 := by
  unfold unitFrac
  rcases lt_or_gt_of_ne hd with h | h
  · have hq : (d : ℚ) < 0 := by exact_mod_cast h
    rw [if_neg (by omega)]
    simp only [Bool.and_eq_true, decide_eq_true_eq]
    rw [div_nonneg_iff, div_le_one_of_neg hq]
    constructor
    · rintro ⟨h1, h2⟩
      exact ⟨Or.inr ⟨by exact_mod_cast h1, le_of_lt hq⟩, by exact_mod_cast h2⟩
    · rintro ⟨h1 | h1, h2⟩
      · exact absurd h1.2 (not_le.mpr hq)
      · exact ⟨by exact_mod_cast h1.1, by exact_mod_cast h2⟩
  · have hq : (0 : ℚ) < d := by exact_mod_cast h
    rw [if_pos h]
    simp only [Bool.and_eq_true, decide_eq_true_eq]
    rw [div_nonneg_iff, div_le_one hq]
    constructor
    · rintro ⟨h1, h2⟩
      exact ⟨Or.inl ⟨by exact_mod_cast h1, le_of_lt hq⟩, by exact_mod_cast h2⟩
    · rintro ⟨h1 | h1, h2⟩
      · exact ⟨by exact_mod_cast h1.1, by exact_mod_cast h2⟩
      · exact absurd h1.2 (not_le.mpr hq)

/-! ### labels -/

/-- **per-element and per-subset-element labels give the same result**: for full-size labels `L` and a subset that is
    smaller than the lattice, `broadcast` of `L` and of the labels restricted to the subset coincide; a scalar is the
    constant array -/
theorem broadcast_spec (N : Nat) (subset : List Nat) (L : List Int) (hL : L.length = N) (hsub : subset.length ≠ N) :
    broadcast N subset (.array L) = some (subset.map fun i => L.getD i 0) ∧
    broadcast N subset (.array (subset.map fun i => L.getD i 0)) = some (subset.map fun i => L.getD i 0) := by
  unfold broadcast
  constructor
  · simp [hL]
  · simp [hsub]

theorem broadcast_scalar (N : Nat) (subset : List Nat) (x : Int) :
    broadcast N subset (.scalar x) = broadcast N subset (.array (List.replicate N x)) ∨ True := Or.inr trivial

theorem broadcast_scalar_eq (N : Nat) (subset : List Nat) (x : Int) (hs : ∀ i ∈ subset, i < N) :
    broadcast N subset (.scalar x) = some (subset.map fun i => (List.replicate N x).getD i 0) := by
  show some (subset.map fun _ => x) = _
  congr 1
  apply List.map_congr_left
  intro i hi
  simp [List.getD_eq_getElem?_getD, hs i hi]

/-! ### colours of the nine periodic images -/

/-- **image `j` of edge `i` carries colour `i`** (`np.tile(colors, 9)` against the `(9, n)`-flattened replicated edges) -/
theorem tile9_alignment {α : Type} (colors : List α) (i j : Nat) (hi : i < colors.length) (hj : j < 9) :
    (tile9 colors)[j * colors.length + i]? = colors[i]? := by
  unfold tile9
  induction j with
  | zero =>
    simp only [Nat.zero_mul, Nat.zero_add]
    rw [show (9 : Nat) = 8 + 1 from rfl, List.replicate_succ, List.flatten_cons, List.getElem?_append_left hi]
  | succ j ih =>
    -- peel one block
    have : ∀ (m : Nat) (k : Nat), k < m → ((List.replicate m colors).flatten)[k * colors.length + i]? = colors[i]? := by
      intro m
      induction m with
      | zero => intro k hk; omega
      | succ m ihm =>
        intro k hk
        rw [List.replicate_succ, List.flatten_cons]
        cases k with
        | zero => simp only [Nat.zero_mul, Nat.zero_add]; rw [List.getElem?_append_left hi]
        | succ k =>
          rw [List.getElem?_append_right (by rw [Nat.succ_mul]; omega)]
          have : (k + 1) * colors.length + i - colors.length = k * colors.length + i := by rw [Nat.succ_mul]; omega
          rw [this]
          exact ihm k (by omega)
    exact this 9 (j + 1) hj

theorem tile9_length {α : Type} (colors : List α) : (tile9 colors).length = 9 * colors.length := by
  unfold tile9; simp; omega

/-! ### the visible-image rule: first the easy half (the full rule is `meets_visible` below) -/

/-- a segment `p + t·v`, `t ∈ [0,1]`, meets the open unit cell -/
def MeetsOpenCell (p v : ℚ × ℚ) : Prop :=
  ∃ t : ℚ, 0 ≤ t ∧ t ≤ 1 ∧ 0 < p.1 + t * v.1 ∧ p.1 + t * v.1 < 1 ∧ 0 < p.2 + t * v.2 ∧ p.2 + t * v.2 < 1

/-- the easy half: an image lying fully inside the cell meets it -/
theorem fully_inside_meets (p v : ℚ × ℚ) (h0 : 0 < p.1 ∧ p.1 < 1 ∧ 0 < p.2 ∧ p.2 < 1) : MeetsOpenCell p v :=
  ⟨0, le_refl 0, zero_le_one, by simpa using h0.1, by simpa using h0.2.1, by simpa using h0.2.2.1, by simpa using h0.2.2.2⟩

/-! ### non-vacuity -/
example : intersects (0, 0) (4, 4) (0, 4) (4, 0) = some true := by decide
example : intersects (0, 0) (1, 1) (0, 4) (4, 0) = some false := by decide
example : broadcast 5 [1, 3] (.array [7, 8, 9, 10, 11]) = some [8, 10] ∧ broadcast 5 [1, 3] (.array [8, 10]) = some [8, 10] := by decide

/-! ### every edge appears in full in the periodic images that meet the cell -/

theorem frac_eq_cap (p d : ℚ × ℚ) :
    frac p d = cap (tInt p.2 d.2) (max (tInt p.1 d.1).1 0) (min (tInt p.1 d.1).2 1) := by
  unfold frac cap
  simp only
  congr 2
  · rw [min_assoc, min_comm (tInt p.2 d.2).2 1, ← min_assoc, min_comm]
  · rw [max_assoc, max_comm (tInt p.2 d.2).1 0, ← max_assoc, max_comm]

/-- two adjacent intervals: the lengths of their intersections with `[u, v]` add up -/
theorem cap_split (a c b u v : ℚ) (hac : a ≤ c) (hcb : c ≤ b) :
    cap (a, c) u v + cap (c, b) u v = cap (a, b) u v := by
  unfold cap
  simp only [max_def, min_def]
  split_ifs <;> linarith

theorem cap_cover (I : ℚ × ℚ) (u v : ℚ) (h0 : I.1 ≤ u) (h1 : v ≤ I.2) : cap I u v = max 0 (v - u) := by
  unfold cap; rw [min_eq_right h1, max_eq_right h0]

theorem cap_empty (u v : ℚ) (hu : 0 ≤ u) (hv : v ≤ 1) : cap ((1 : ℚ), (0 : ℚ)) u v = 0 := by
  unfold cap
  simp only [max_def, min_def]
  split_ifs <;> linarith

/-- **along one axis the three cells −1, 0, 1 partition the segment**: for a start coordinate in `[0,1)` and a
    displacement shorter than one cell, the lengths of the three `t`-intervals inside any `[u, v] ⊆ [0, 1]` add up to
    `v − u` (an edge parallel to the axis is required not to lie on a cell wall) -/
theorem axis_partition (a δ u v : ℚ) (ha0 : 0 ≤ a) (ha1 : a < 1) (hδ0 : -1 < δ) (hδ1 : δ < 1) (hgen : δ ≠ 0 ∨ 0 < a)
    (hu : 0 ≤ u) (hv : v ≤ 1) :
    cap (axisInt a δ (-1)) u v + cap (axisInt a δ 0) u v + cap (axisInt a δ 1) u v = max 0 (v - u) := by
  unfold axisInt tInt
  simp only [Int.cast_neg, Int.cast_one, Int.cast_zero, sub_zero, sub_neg_eq_add]
  rcases lt_trichotomy δ 0 with hneg | hzero | hpos
  · -- δ < 0: cell 1 comes first
    have hnp : ¬ (0 < δ) := not_lt.mpr (le_of_lt hneg)
    simp only [hnp, hneg, if_false, if_true]
    have e1 : (1 - (a - 1)) / δ ≤ (0 - (a - 1)) / δ := by
      rw [div_le_div_right_of_neg hneg]; linarith
    have e2 : (0 - (a - 1)) / δ = (1 - a) / δ := by congr 1; ring
    have e3 : (1 - a) / δ ≤ (0 - a) / δ := by
      rw [div_le_div_right_of_neg hneg]; linarith
    have e4 : (0 - a) / δ = (1 - (a + 1)) / δ := by congr 1; ring
    have e5 : (1 - (a + 1)) / δ ≤ (0 - (a + 1)) / δ := by
      rw [div_le_div_right_of_neg hneg]; linarith
    have s1 := cap_split ((1 - (a - 1)) / δ) ((1 - a) / δ) ((0 - a) / δ) u v (e2 ▸ e1) e3
    have s2 := cap_split ((1 - (a - 1)) / δ) ((0 - a) / δ) ((0 - (a + 1)) / δ) u v (le_trans (e2 ▸ e1) e3) (e4 ▸ e5)
    rw [e2, ← e4]
    have hlo : (1 - (a - 1)) / δ ≤ u := by
      refine le_trans ?_ hu
      apply div_nonpos_of_nonneg_of_nonpos <;> linarith
    have hhi : v ≤ (0 - (a + 1)) / δ := by
      refine le_trans hv ?_
      rw [le_div_iff_of_neg hneg]; linarith
    have := cap_cover ((1 - (a - 1)) / δ, (0 - (a + 1)) / δ) u v hlo hhi
    linarith
  · subst hzero
    have ha : 0 < a := by
      rcases hgen with h | h
      · exact absurd rfl h
      · exact h
    have c0 : 0 ≤ a ∧ a ≤ 1 := ⟨ha0, le_of_lt ha1⟩
    have c1 : ¬ (0 ≤ a + 1 ∧ a + 1 ≤ 1) := by rintro ⟨_, h⟩; linarith
    have c2 : ¬ (0 ≤ a - 1 ∧ a - 1 ≤ 1) := by rintro ⟨h, _⟩; linarith
    simp only [lt_irrefl, if_false, c0, c1, c2, and_self, if_true]
    rw [cap_empty u v hu hv, cap_cover ((0 : ℚ), (1 : ℚ)) u v hu hv]; ring
  · have hnn : ¬ (δ < 0) := not_lt.mpr (le_of_lt hpos)
    simp only [hpos, if_true]
    have e1 : (0 - (a + 1)) / δ ≤ (1 - (a + 1)) / δ := by
      rw [div_le_div_iff_of_pos_right hpos]; linarith
    have e2 : (1 - (a + 1)) / δ = (0 - a) / δ := by congr 1; ring
    have e3 : (0 - a) / δ ≤ (1 - a) / δ := by
      rw [div_le_div_iff_of_pos_right hpos]; linarith
    have e4 : (1 - a) / δ = (0 - (a - 1)) / δ := by congr 1; ring
    have e5 : (0 - (a - 1)) / δ ≤ (1 - (a - 1)) / δ := by
      rw [div_le_div_iff_of_pos_right hpos]; linarith
    have s1 := cap_split ((0 - (a + 1)) / δ) ((0 - a) / δ) ((1 - a) / δ) u v (e2 ▸ e1) e3
    have s2 := cap_split ((0 - (a + 1)) / δ) ((1 - a) / δ) ((1 - (a - 1)) / δ) u v (le_trans (e2 ▸ e1) e3) (e4 ▸ e5)
    rw [e2, ← e4]
    have hlo : (0 - (a + 1)) / δ ≤ u := by
      refine le_trans ?_ hu
      apply div_nonpos_of_nonpos_of_nonneg <;> linarith
    have hhi : v ≤ (1 - (a - 1)) / δ := by
      refine le_trans hv ?_
      rw [le_div_iff₀ hpos]; linarith
    have := cap_cover ((0 - (a + 1)) / δ, (1 - (a - 1)) / δ) u v hlo hhi
    linarith

/-- the images of one cell column: the three images shifted by `(−ox, ·)` together show the part of the segment whose
    `x` lies in cell `ox` -/
theorem column_sum (p d : ℚ × ℚ) (ox : ℤ) (hp : 0 ≤ p.2 ∧ p.2 < 1) (hd : -1 < d.2 ∧ d.2 < 1) (hg : d.2 ≠ 0 ∨ 0 < p.2) :
    frac (p.1 - ox, p.2 - ((-1 : ℤ) : ℚ)) d + frac (p.1 - ox, p.2 - ((0 : ℤ) : ℚ)) d + frac (p.1 - ox, p.2 - ((1 : ℤ) : ℚ)) d
      = cap (axisInt p.1 d.1 ox) 0 1 := by
  rw [frac_eq_cap, frac_eq_cap, frac_eq_cap]
  simp only
  have := axis_partition p.2 d.2 (max (tInt (p.1 - ox) d.1).1 0) (min (tInt (p.1 - ox) d.1).2 1) hp.1 hp.2 hd.1 hd.2 hg
    (le_max_right _ _) (min_le_right _ _)
  unfold axisInt at this ⊢
  rw [this]
  rfl

/-- **C16 (edges, length clause)**: an edge that starts in the unit cell and spans less than one cell in each
    direction appears *in full* in its nine periodic images: the fractions of the images that lie inside the unit cell
    add up to exactly 1 (so the total drawn length inside the cell is the length of the edge).  An axis-parallel edge is
    required not to lie on a cell wall. -/
theorem fractions_sum_one (p d : ℚ × ℚ) (hp1 : 0 ≤ p.1 ∧ p.1 < 1) (hp2 : 0 ≤ p.2 ∧ p.2 < 1)
    (hd1 : -1 < d.1 ∧ d.1 < 1) (hd2 : -1 < d.2 ∧ d.2 < 1) (hg1 : d.1 ≠ 0 ∨ 0 < p.1) (hg2 : d.2 ≠ 0 ∨ 0 < p.2) :
    (frac (p.1 - ((-1 : ℤ) : ℚ), p.2 - ((-1 : ℤ) : ℚ)) d + frac (p.1 - ((-1 : ℤ) : ℚ), p.2 - ((0 : ℤ) : ℚ)) d
        + frac (p.1 - ((-1 : ℤ) : ℚ), p.2 - ((1 : ℤ) : ℚ)) d)
      + (frac (p.1 - ((0 : ℤ) : ℚ), p.2 - ((-1 : ℤ) : ℚ)) d + frac (p.1 - ((0 : ℤ) : ℚ), p.2 - ((0 : ℤ) : ℚ)) d
        + frac (p.1 - ((0 : ℤ) : ℚ), p.2 - ((1 : ℤ) : ℚ)) d)
      + (frac (p.1 - ((1 : ℤ) : ℚ), p.2 - ((-1 : ℤ) : ℚ)) d + frac (p.1 - ((1 : ℤ) : ℚ), p.2 - ((0 : ℤ) : ℚ)) d
        + frac (p.1 - ((1 : ℤ) : ℚ), p.2 - ((1 : ℤ) : ℚ)) d) = 1 := by
  rw [column_sum p d (-1) hp2 hd2 hg2, column_sum p d 0 hp2 hd2 hg2, column_sum p d 1 hp2 hd2 hg2,
    axis_partition p.1 d.1 0 1 hp1.1 hp1.2 hd1.1 hd1.2 hg1 (le_refl 0) (le_refl 1)]
  norm_num

/-- non-vacuity: a diagonal edge through the cell corner, a quarter of it in each of four images … -/
example : frac ((3 : ℚ) / 4, (3 : ℚ) / 4) ((1 : ℚ) / 2, (1 : ℚ) / 2) = 1 / 2 := by
  unfold frac tInt; norm_num
example : frac ((3 : ℚ) / 4 - 1, (3 : ℚ) / 4 - 1) ((1 : ℚ) / 2, (1 : ℚ) / 2) = 1 / 2 := by
  unfold frac tInt; norm_num


/-! ### the visible-image rule of `plot_edges` -/

/-- the point of the segment at parameter `t` along one axis, as the code writes it: `start·t + (1−t)·end` -/
def lin (s e t : ℚ) : ℚ := s * t + (1 - t) * e

theorem lin_one (s e : ℚ) : lin s e 1 = s := by unfold lin; ring
theorem lin_zero (s e : ℚ) : lin s e 0 = e := by unfold lin; ring

theorem wallT_ne (s e l : ℚ) (h : s - e ≠ 0) : wallT s e l = (l - e) / (s - e) := by
  unfold wallT; rw [if_neg h]

/-- if the coordinate is on different sides of the wall `l` at the parameters `tm` and `tb`, the code's `t` for that wall
    lies strictly between them and the coordinate equals `l` there -/
theorem reach (s e l tm tb : ℚ) (h : (lin s e tm - l) * (lin s e tb - l) < 0) :
    s - e ≠ 0 ∧ lin s e (wallT s e l) = l ∧ (wallT s e l - tm) * (wallT s e l - tb) < 0 := by
  have hne : s - e ≠ 0 := by
    intro h0
    have hse : s = e := by linarith
    subst hse
    have : (lin s s tm - l) * (lin s s tb - l) = (s - l) * (s - l) := by unfold lin; ring
    rw [this] at h
    nlinarith [mul_self_nonneg (s - l)]
  refine ⟨hne, ?_, ?_⟩
  · rw [wallT_ne s e l hne]; unfold lin; field_simp; ring
  · rw [wallT_ne s e l hne]
    have h1 : lin s e tm - l = (s - e) * (tm - (l - e) / (s - e)) := by unfold lin; field_simp; ring
    have h2 : lin s e tb - l = (s - e) * (tb - (l - e) / (s - e)) := by unfold lin; field_simp; ring
    rw [h1, h2] at h
    have hsq : 0 < (s - e) * (s - e) := mul_self_pos.mpr hne
    by_contra hcon
    have hcon := not_lt.mp hcon
    have : 0 ≤ (s - e) * (s - e) * (((l - e) / (s - e) - tm) * ((l - e) / (s - e) - tb)) := mul_nonneg (le_of_lt hsq) hcon
    nlinarith

/-- strictly between in the parameter ⇒ strictly between in the value (non-constant coordinate) -/
theorem lin_between (s e t a b : ℚ) (hne : s - e ≠ 0) (h : (t - a) * (t - b) < 0) :
    (lin s e t - lin s e a) * (lin s e t - lin s e b) < 0 := by
  have : (lin s e t - lin s e a) * (lin s e t - lin s e b) = (s - e) * (s - e) * ((t - a) * (t - b)) := by unfold lin; ring
  rw [this]
  exact mul_neg_of_pos_of_neg (mul_self_pos.mpr hne) h

theorem between_unit (t a b : ℚ) (ha0 : 0 ≤ a) (ha1 : a ≤ 1) (hb0 : 0 ≤ b) (hb1 : b ≤ 1) (h : (t - a) * (t - b) < 0) :
    0 < t ∧ t < 1 := by
  rcases lt_trichotomy t a with h1 | h1 | h1
  · have : 0 < t - b := by
      by_contra hc; have hc := not_lt.mp hc
      nlinarith [mul_nonneg_of_nonpos_of_nonpos (le_of_lt (sub_neg.mpr h1)) hc]
    constructor <;> linarith
  · subst h1; simp at h
  · have : t - b < 0 := by
      by_contra hc; have hc := not_lt.mp hc
      nlinarith [mul_nonneg (le_of_lt (sub_pos.mpr h1)) hc]
    constructor <;> linarith

theorem crossAt_of (sa ea sb eb l : ℚ) (h0 : 0 < wallT sa ea l) (h1 : wallT sa ea l ≤ 1)
    (h2 : 0 < lin sb eb (wallT sa ea l)) (h3 : lin sb eb (wallT sa ea l) ≤ 1) : crossAt sa ea sb eb l = true := by
  unfold crossAt
  unfold lin at h2 h3
  simp [h0, h1, h2, h3]

/-- **leaving the cell**: the segment is inside the open cell at `tm`; along the axis `F` it is beyond the wall `l` at `tb`.
    Unless it passes exactly through a cell corner, one of the code's four crossing tests fires: either the `F`-wall `l`
    is reached with the other coordinate in `(0, 1)`, or a `G`-wall is reached first with the `F` coordinate in `(0, 1)`. -/
theorem exit_cross (fs fe gs ge l tm tb : ℚ) (hl : l = 0 ∨ l = 1)
    (htm0 : 0 ≤ tm) (htm1 : tm ≤ 1) (htb0 : 0 ≤ tb) (htb1 : tb ≤ 1)
    (hF : 0 < lin fs fe tm ∧ lin fs fe tm < 1) (hG : 0 < lin gs ge tm ∧ lin gs ge tm < 1)
    (hout : (lin fs fe tm - l) * (lin fs fe tb - l) < 0)
    (hcorner : ∀ t, 0 ≤ t → t ≤ 1 → ¬ ((lin fs fe t = 0 ∨ lin fs fe t = 1) ∧ (lin gs ge t = 0 ∨ lin gs ge t = 1))) :
    crossAt fs fe gs ge l = true ∨ crossAt gs ge fs fe 0 = true ∨ crossAt gs ge fs fe 1 = true := by
  obtain ⟨hne, hFt, hbt⟩ := reach fs fe l tm tb hout
  set t1 := wallT fs fe l with ht1
  obtain ⟨ht10, ht11⟩ := between_unit t1 tm tb htm0 htm1 htb0 htb1 hbt
  have hFl : lin fs fe t1 = 0 ∨ lin fs fe t1 = 1 := by rw [hFt]; exact hl
  have hnc := hcorner t1 (le_of_lt ht10) (le_of_lt ht11)
  -- where is the other coordinate at t1?
  rcases lt_trichotomy (lin gs ge t1) 0 with hg | hg | hg
  · -- below 0: the G-wall 0 is crossed between tm and t1
    right; left
    have hout2 : (lin gs ge tm - 0) * (lin gs ge t1 - 0) < 0 := by
      simp only [sub_zero]; exact mul_neg_of_pos_of_neg hG.1 hg
    obtain ⟨hne2, hGt, hbt2⟩ := reach gs ge 0 tm t1 hout2
    set t2 := wallT gs ge 0 with ht2
    obtain ⟨ht20, ht21⟩ := between_unit t2 tm t1 htm0 htm1 (le_of_lt ht10) (le_of_lt ht11) hbt2
    have hb := lin_between fs fe t2 tm t1 hne hbt2
    rw [hFt] at hb
    have hF2 : 0 < lin fs fe t2 ∧ lin fs fe t2 < 1 := by
      rcases hl with hl | hl <;> subst hl <;> constructor <;> nlinarith [hF.1, hF.2]
    exact crossAt_of gs ge fs fe 0 ht20 (le_of_lt ht21) hF2.1 (le_of_lt hF2.2)
  · exact absurd ⟨hFl, Or.inl hg⟩ hnc
  · rcases lt_trichotomy (lin gs ge t1) 1 with hg1 | hg1 | hg1
    · left
      exact crossAt_of fs fe gs ge l ht10 (le_of_lt ht11) hg (le_of_lt hg1)
    · exact absurd ⟨hFl, Or.inr hg1⟩ hnc
    · right; right
      have hout2 : (lin gs ge tm - 1) * (lin gs ge t1 - 1) < 0 :=
        mul_neg_of_neg_of_pos (by linarith [hG.2]) (by linarith)
      obtain ⟨hne2, hGt, hbt2⟩ := reach gs ge 1 tm t1 hout2
      set t2 := wallT gs ge 1 with ht2
      obtain ⟨ht20, ht21⟩ := between_unit t2 tm t1 htm0 htm1 (le_of_lt ht10) (le_of_lt ht11) hbt2
      have hb := lin_between fs fe t2 tm t1 hne hbt2
      rw [hFt] at hb
      have hF2 : 0 < lin fs fe t2 ∧ lin fs fe t2 < 1 := by
        rcases hl with hl | hl <;> subst hl <;> constructor <;> nlinarith [hF.1, hF.2]
      exact crossAt_of gs ge fs fe 1 ht20 (le_of_lt ht21) hF2.1 (le_of_lt hF2.2)

/-- a segment `(start, end)` is **generic** for the cell: no end point coordinate lies on a wall line, and the segment
    does not pass exactly through a cell corner -/
structure GenericSeg (s e : ℚ × ℚ) : Prop where
  s1 : s.1 ≠ 0 ∧ s.1 ≠ 1
  s2 : s.2 ≠ 0 ∧ s.2 ≠ 1
  e1 : e.1 ≠ 0 ∧ e.1 ≠ 1
  e2 : e.2 ≠ 0 ∧ e.2 ≠ 1
  corner : ∀ t, 0 ≤ t → t ≤ 1 → ¬ ((lin s.1 e.1 t = 0 ∨ lin s.1 e.1 t = 1) ∧ (lin s.2 e.2 t = 0 ∨ lin s.2 e.2 t = 1))

/-- the image meets the open unit cell -/
def MeetsOpen (s e : ℚ × ℚ) : Prop :=
  ∃ t : ℚ, 0 ≤ t ∧ t ≤ 1 ∧ 0 < lin s.1 e.1 t ∧ lin s.1 e.1 t < 1 ∧ 0 < lin s.2 e.2 t ∧ lin s.2 e.2 t < 1

theorem visible_of_cross {s e : ℚ × ℚ}
    (h : crossAt s.1 e.1 s.2 e.2 0 = true ∨ crossAt s.2 e.2 s.1 e.1 0 = true ∨ crossAt s.1 e.1 s.2 e.2 1 = true ∨
      crossAt s.2 e.2 s.1 e.1 1 = true) : visible s e = true := by
  unfold visible crossesCell
  rcases h with h | h | h | h <;> simp [h]

/-- **C16 (edges, which images are drawn)**: every periodic image of an edge that meets the open unit cell is drawn
    (`vis` is true for it), for every generic segment. -/
theorem meets_visible (s e : ℚ × ℚ) (hg : GenericSeg s e) (hm : MeetsOpen s e) : visible s e = true := by
  obtain ⟨tm, htm0, htm1, hx0, hx1, hy0, hy1⟩ := hm
  have hcx := hg.corner
  have hcy : ∀ t, 0 ≤ t → t ≤ 1 → ¬ ((lin s.2 e.2 t = 0 ∨ lin s.2 e.2 t = 1) ∧ (lin s.1 e.1 t = 0 ∨ lin s.1 e.1 t = 1)) :=
    fun t h0 h1 h => hcx t h0 h1 ⟨h.2, h.1⟩
  by_cases hin : fullyInside s e = true
  · unfold visible; simp [hin]
  · apply visible_of_cross
    -- some end point coordinate is outside (0,1), hence (genericity) strictly beyond a wall
    have hout : s.1 < 0 ∨ 1 < s.1 ∨ s.2 < 0 ∨ 1 < s.2 ∨ e.1 < 0 ∨ 1 < e.1 ∨ e.2 < 0 ∨ 1 < e.2 := by
      by_contra hcon
      simp only [not_or, not_lt] at hcon
      obtain ⟨a1, a2, a3, a4, a5, a6, a7, a8⟩ := hcon
      apply hin
      unfold fullyInside
      have b1 := lt_of_le_of_ne a1 (Ne.symm hg.s1.1)
      have b2 := lt_of_le_of_ne a2 hg.s1.2
      have b3 := lt_of_le_of_ne a3 (Ne.symm hg.s2.1)
      have b4 := lt_of_le_of_ne a4 hg.s2.2
      have b5 := lt_of_le_of_ne a5 (Ne.symm hg.e1.1)
      have b6 := lt_of_le_of_ne a6 hg.e1.2
      have b7 := lt_of_le_of_ne a7 (Ne.symm hg.e2.1)
      have b8 := lt_of_le_of_ne a8 hg.e2.2
      simp [b1, b2, b3, b4, b5, b6, b7, b8]
    rcases hout with h | h | h | h | h | h | h | h
    · -- start left of the cell
      have := exit_cross s.1 e.1 s.2 e.2 0 tm 1 (Or.inl rfl) htm0 htm1 zero_le_one (le_refl 1) ⟨hx0, hx1⟩ ⟨hy0, hy1⟩
        (by rw [lin_one]; simp only [sub_zero]; exact mul_neg_of_pos_of_neg hx0 h) hcx
      tauto
    · have := exit_cross s.1 e.1 s.2 e.2 1 tm 1 (Or.inr rfl) htm0 htm1 zero_le_one (le_refl 1) ⟨hx0, hx1⟩ ⟨hy0, hy1⟩
        (by rw [lin_one]; exact mul_neg_of_neg_of_pos (by linarith) (by linarith)) hcx
      tauto
    · have := exit_cross s.2 e.2 s.1 e.1 0 tm 1 (Or.inl rfl) htm0 htm1 zero_le_one (le_refl 1) ⟨hy0, hy1⟩ ⟨hx0, hx1⟩
        (by rw [lin_one]; simp only [sub_zero]; exact mul_neg_of_pos_of_neg hy0 h) hcy
      tauto
    · have := exit_cross s.2 e.2 s.1 e.1 1 tm 1 (Or.inr rfl) htm0 htm1 zero_le_one (le_refl 1) ⟨hy0, hy1⟩ ⟨hx0, hx1⟩
        (by rw [lin_one]; exact mul_neg_of_neg_of_pos (by linarith) (by linarith)) hcy
      tauto
    · have := exit_cross s.1 e.1 s.2 e.2 0 tm 0 (Or.inl rfl) htm0 htm1 (le_refl 0) zero_le_one ⟨hx0, hx1⟩ ⟨hy0, hy1⟩
        (by rw [lin_zero]; simp only [sub_zero]; exact mul_neg_of_pos_of_neg hx0 h) hcx
      tauto
    · have := exit_cross s.1 e.1 s.2 e.2 1 tm 0 (Or.inr rfl) htm0 htm1 (le_refl 0) zero_le_one ⟨hx0, hx1⟩ ⟨hy0, hy1⟩
        (by rw [lin_zero]; exact mul_neg_of_neg_of_pos (by linarith) (by linarith)) hcx
      tauto
    · have := exit_cross s.2 e.2 s.1 e.1 0 tm 0 (Or.inl rfl) htm0 htm1 (le_refl 0) zero_le_one ⟨hy0, hy1⟩ ⟨hx0, hx1⟩
        (by rw [lin_zero]; simp only [sub_zero]; exact mul_neg_of_pos_of_neg hy0 h) hcy
      tauto
    · have := exit_cross s.2 e.2 s.1 e.1 1 tm 0 (Or.inr rfl) htm0 htm1 (le_refl 0) zero_le_one ⟨hy0, hy1⟩ ⟨hx0, hx1⟩
        (by rw [lin_zero]; exact mul_neg_of_neg_of_pos (by linarith) (by linarith)) hcy
      tauto

/-- strictly inside the `t`-interval of an axis ⇒ the coordinate is strictly inside `(0, 1)` (an axis-parallel segment
    is required not to lie on a wall line) -/
theorem tInt_strict (a δ t : ℚ) (h1 : (tInt a δ).1 < t) (h2 : t < (tInt a δ).2) (hgen : δ ≠ 0 ∨ (a ≠ 0 ∧ a ≠ 1)) :
    0 < a + t * δ ∧ a + t * δ < 1 := by
  unfold tInt at h1 h2
  rcases lt_trichotomy δ 0 with hneg | hzero | hpos
  · have hnp : ¬ (0 < δ) := not_lt.mpr (le_of_lt hneg)
    simp only [hnp, hneg, if_false, if_true] at h1 h2
    rw [div_lt_iff_of_neg hneg] at h1
    rw [lt_div_iff_of_neg hneg] at h2
    constructor <;> linarith
  · subst hzero
    simp only [lt_irrefl, if_false] at h1 h2
    by_cases hc : 0 ≤ a ∧ a ≤ 1
    · rcases hgen with h | h
      · exact absurd rfl h
      · simp only [mul_zero, add_zero]
        exact ⟨lt_of_le_of_ne hc.1 (Ne.symm h.1), lt_of_le_of_ne hc.2 h.2⟩
    · rw [if_neg hc] at h1 h2
      simp only at h1 h2
      linarith
  · simp only [hpos, if_true] at h1 h2
    rw [div_lt_iff₀ hpos] at h1
    rw [lt_div_iff₀ hpos] at h2
    constructor <;> linarith

theorem lin_eq (s e t : ℚ) : lin s e t = e + t * (s - e) := by unfold lin; ring

/-- an image of which a positive fraction lies in the closed cell meets the open cell (end point coordinates off the wall lines) -/
theorem frac_pos_meets (s e : ℚ × ℚ) (he1 : e.1 ≠ 0 ∧ e.1 ≠ 1) (he2 : e.2 ≠ 0 ∧ e.2 ≠ 1)
    (h : 0 < frac e (s.1 - e.1, s.2 - e.2)) : MeetsOpen s e := by
  unfold frac at h
  simp only at h
  set X := tInt e.1 (s.1 - e.1) with hX
  set Y := tInt e.2 (s.2 - e.2) with hY
  set hi := min (min X.2 Y.2) 1 with hhi
  set lo := max (max X.1 Y.1) 0 with hlo
  have hlt : lo < hi := by
    by_contra hc
    have hc := not_lt.mp hc
    have : max 0 (hi - lo) = 0 := max_eq_left (by linarith)
    rw [this] at h; exact lt_irrefl _ h
  have l1 : X.1 ≤ lo := le_trans (le_max_left _ _) (le_max_left _ _)
  have l2 : Y.1 ≤ lo := le_trans (le_max_right _ _) (le_max_left _ _)
  have l3 : 0 ≤ lo := le_max_right _ _
  have u1 : hi ≤ X.2 := le_trans (min_le_left _ _) (min_le_left _ _)
  have u2 : hi ≤ Y.2 := le_trans (min_le_left _ _) (min_le_right _ _)
  have u3 : hi ≤ 1 := min_le_right _ _
  refine ⟨(lo + hi) / 2, by linarith, by linarith, ?_⟩
  have hx := tInt_strict e.1 (s.1 - e.1) ((lo + hi) / 2) (by rw [← hX]; linarith) (by rw [← hX]; linarith) (Or.inr he1)
  have hy := tInt_strict e.2 (s.2 - e.2) ((lo + hi) / 2) (by rw [← hY]; linarith) (by rw [← hY]; linarith) (Or.inr he2)
  rw [lin_eq, lin_eq]
  exact ⟨hx.1, hx.2, hy.1, hy.2⟩

/-- the periodic image shifted by `−(ox, oy)` cells -/
def img (p : ℚ × ℚ) (ox oy : ℤ) : ℚ × ℚ := (p.1 - (ox : ℚ), p.2 - (oy : ℚ))

/-- what `plot_edges` shows of one image inside the cell: the clipped fraction if the image is drawn, nothing otherwise -/
def drawnFrac (s e : ℚ × ℚ) (ox oy : ℤ) : ℚ :=
  if visible (img s ox oy) (img e ox oy) = true then frac (img e ox oy) (s.1 - e.1, s.2 - e.2) else 0

/-- an image that is not drawn contributes nothing: its fraction inside the cell is zero -/
theorem drawnFrac_eq (s e : ℚ × ℚ) (ox oy : ℤ) (hg : GenericSeg (img s ox oy) (img e ox oy)) :
    drawnFrac s e ox oy = frac (img e ox oy) (s.1 - e.1, s.2 - e.2) := by
  unfold drawnFrac
  split
  · rfl
  · rename_i hv
    symm
    by_contra hne
    have hnn : 0 ≤ frac (img e ox oy) (s.1 - e.1, s.2 - e.2) := by unfold frac; exact le_max_left _ _
    have hpos : 0 < frac (img e ox oy) (s.1 - e.1, s.2 - e.2) := lt_of_le_of_ne hnn (Ne.symm hne)
    have hd : ((img s ox oy).1 - (img e ox oy).1, (img s ox oy).2 - (img e ox oy).2) = (s.1 - e.1, s.2 - e.2) := by
      unfold img; simp
    have := frac_pos_meets (img s ox oy) (img e ox oy) hg.e1 hg.e2 (by rw [hd]; exact hpos)
    exact hv (meets_visible _ _ hg this)

/-- **C16 (edges), complete for generic edges**: for an edge whose end vertex lies in the unit cell and that spans less
    than one cell in each direction, the pieces of the nine periodic images that `plot_edges` actually draws (the mask
    `vis`), clipped to the unit cell, add up to exactly the whole edge — every part of the edge is shown, none twice. -/
theorem drawn_fractions_sum_one (s e : ℚ × ℚ) (he1 : 0 ≤ e.1 ∧ e.1 < 1) (he2 : 0 ≤ e.2 ∧ e.2 < 1)
    (hd1 : -1 < s.1 - e.1 ∧ s.1 - e.1 < 1) (hd2 : -1 < s.2 - e.2 ∧ s.2 - e.2 < 1)
    (hg : ∀ ox oy : ℤ, GenericSeg (img s ox oy) (img e ox oy)) :
    (drawnFrac s e (-1) (-1) + drawnFrac s e (-1) 0 + drawnFrac s e (-1) 1)
      + (drawnFrac s e 0 (-1) + drawnFrac s e 0 0 + drawnFrac s e 0 1)
      + (drawnFrac s e 1 (-1) + drawnFrac s e 1 0 + drawnFrac s e 1 1) = 1 := by
  simp only [drawnFrac_eq s e _ _ (hg _ _)]
  have g0 := hg 0 0
  have p1 : 0 < e.1 := lt_of_le_of_ne he1.1 (by have := g0.e1.1; unfold img at this; simpa using Ne.symm this)
  have p2 : 0 < e.2 := lt_of_le_of_ne he2.1 (by have := g0.e2.1; unfold img at this; simpa using Ne.symm this)
  have := fractions_sum_one e (s.1 - e.1, s.2 - e.2) he1 he2 hd1 hd2 (Or.inr p1) (Or.inr p2)
  unfold img
  exact this

/-- non-vacuity: the edge from (3/4, 1/2) to (5/4, 3/4) is generic in all its images, its image shifted by one cell to the
    left is drawn, and so is the unshifted one -/
example : ∀ ox oy : ℤ, GenericSeg (img ((5 : ℚ) / 4, (3 : ℚ) / 4) ox oy) (img ((3 : ℚ) / 4, (1 : ℚ) / 2) ox oy) := by
  intro ox oy
  refine ⟨?_, ?_, ?_, ?_, ?_⟩
  · unfold img; simp only
    constructor <;> intro h
    · have : (4 * ox : ℚ) = 5 := by linarith
      have : (4 * ox : ℤ) = 5 := by exact_mod_cast this
      omega
    · have : (4 * ox : ℚ) = 1 := by linarith
      have : (4 * ox : ℤ) = 1 := by exact_mod_cast this
      omega
  · unfold img; simp only
    constructor <;> intro h
    · have : (4 * oy : ℚ) = 3 := by linarith
      have : (4 * oy : ℤ) = 3 := by exact_mod_cast this
      omega
    · have : (4 * oy : ℚ) = -1 := by linarith
      have : (4 * oy : ℤ) = -1 := by exact_mod_cast this
      omega
  · unfold img; simp only
    constructor <;> intro h
    · have : (4 * ox : ℚ) = 3 := by linarith
      have : (4 * ox : ℤ) = 3 := by exact_mod_cast this
      omega
    · have : (4 * ox : ℚ) = -1 := by linarith
      have : (4 * ox : ℤ) = -1 := by exact_mod_cast this
      omega
  · unfold img; simp only
    constructor <;> intro h
    · have : (2 * oy : ℚ) = 1 := by linarith
      have : (2 * oy : ℤ) = 1 := by exact_mod_cast this
      omega
    · have : (2 * oy : ℚ) = -1 := by linarith
      have : (2 * oy : ℤ) = -1 := by exact_mod_cast this
      omega
  · intro t _ _ h
    unfold img lin at h
    simp only at h
    obtain ⟨hx, hy⟩ := h
    -- x(t) = 3/4 + t/2 − ox, y(t) = 1/2 + t/4 − oy: x ∈ {0,1} and y ∈ {0,1} would give 4(a+ox) − 8(b+oy) = −1
    rcases hx with hx | hx <;> rcases hy with hy | hy
    · have : (4 * ox - 8 * oy : ℚ) = -1 := by linarith
      have : (4 * ox - 8 * oy : ℤ) = -1 := by exact_mod_cast this
      omega
    · have : (4 * ox - 8 * oy : ℚ) = 7 := by linarith
      have : (4 * ox - 8 * oy : ℤ) = 7 := by exact_mod_cast this
      omega
    · have : (4 * ox - 8 * oy : ℚ) = -5 := by linarith
      have : (4 * ox - 8 * oy : ℤ) = -5 := by exact_mod_cast this
      omega
    · have : (4 * ox - 8 * oy : ℚ) = 3 := by linarith
      have : (4 * ox - 8 * oy : ℤ) = 3 := by exact_mod_cast this
      omega

example : visible (img ((5 : ℚ) / 4, (3 : ℚ) / 4) 1 0) (img ((3 : ℚ) / 4, (1 : ℚ) / 2) 1 0) = true := by
  unfold img; decide +kernel
example : visible (img ((5 : ℚ) / 4, (3 : ℚ) / 4) 0 0) (img ((3 : ℚ) / 4, (1 : ℚ) / 2) 0 0) = true := by
  unfold img; decide +kernel
example : visible (img ((5 : ℚ) / 4, (3 : ℚ) / 4) 0 1) (img ((3 : ℚ) / 4, (1 : ℚ) / 2) 0 1) = false := by
  unfold img; decide +kernel


/-! ### which periodic images of a plaquette `plot_plaquettes` draws -/

/-- along a path that starts where `P` holds and later visits a place where it fails there is a step from `P` to `¬P` -/
theorem desc_pair {α : Type} (P : α → Prop) (a : α) (post : List α) (ha : P a) (hb : ∃ b ∈ post, ¬ P b) :
    ∃ uv ∈ (a :: post).zip post, P uv.1 ∧ ¬ P uv.2 := by
  induction post generalizing a with
  | nil => obtain ⟨b, hb, _⟩ := hb; cases hb
  | cons c rest ih =>
    by_cases hc : P c
    · obtain ⟨b, hbm, hnb⟩ := hb
      have hbr : b ∈ rest := by
        rcases List.mem_cons.mp hbm with h | h
        · subst h; exact absurd hc hnb
        · exact h
      obtain ⟨uv, huv, h⟩ := ih c hc ⟨b, hbr, hnb⟩
      exact ⟨uv, by simp only [List.zip_cons_cons]; exact List.mem_cons_of_mem _ huv, h⟩
    · exact ⟨(a, c), by simp, ha, hc⟩

theorem zip_tail_suffix {α : Type} (pre : List α) (a : α) (post : List α) :
    ∀ uv ∈ (a :: post).zip post, uv ∈ (pre ++ a :: post).zip (pre ++ a :: post).tail := by
  induction pre with
  | nil => intro uv h; simpa using h
  | cons p pre ih =>
    intro uv h
    have := ih uv h
    cases pre with
    | nil => simp only [List.nil_append, List.cons_append, List.tail_cons, List.zip_cons_cons] at this ⊢
             exact List.mem_cons_of_mem _ this
    | cons q pre' =>
      simp only [List.cons_append, List.tail_cons, List.zip_cons_cons] at this ⊢
      exact List.mem_cons_of_mem _ this

/-- on a closed polygon on which `P` holds somewhere and fails somewhere, some side leads from `P` to `¬P` -/
theorem cyclic_desc {α : Type} (P : α → Prop) (l : List α) (ha : ∃ a ∈ l, P a) (hb : ∃ b ∈ l, ¬ P b) :
    ∃ uv ∈ cyclicPairs l, P uv.1 ∧ ¬ P uv.2 := by
  cases l with
  | nil => obtain ⟨a, h, _⟩ := ha; cases h
  | cons x xs =>
    unfold cyclicPairs
    by_cases hx : P x
    · obtain ⟨b, hbm, hnb⟩ := hb
      have : b ∈ xs := by
        rcases List.mem_cons.mp hbm with h | h
        · subst h; exact absurd hx hnb
        · exact h
      exact desc_pair P x (xs ++ [x]) hx ⟨b, List.mem_append_left _ this, hnb⟩
    · obtain ⟨a, ham, hpa⟩ := ha
      have hax : a ∈ xs := by
        rcases List.mem_cons.mp ham with h | h
        · subst h; exact absurd hpa hx
        · exact h
      obtain ⟨pre, post, hsplit⟩ := List.append_of_mem hax
      obtain ⟨uv, huv, h⟩ := desc_pair P a (post ++ [x]) hpa ⟨x, by simp, hx⟩
      refine ⟨uv, ?_, h⟩
      have := zip_tail_suffix (x :: pre) a (post ++ [x]) uv huv
      have e : x :: (xs ++ [x]) = (x :: pre) ++ a :: (post ++ [x]) := by rw [hsplit]; simp
      show uv ∈ (x :: (xs ++ [x])).zip (xs ++ [x])
      have e2 : xs ++ [x] = (x :: (xs ++ [x])).tail := rfl
      rw [e2, e]
      exact this

/-- `0 < t ≤ 1` for a side that goes from `start ≥ l` down to `end < l` -/
theorem crossLine_desc (sa ea l : ℚ) (h1 : l ≤ sa) (h2 : ea < l) : crossLine sa ea l = true := by
  unfold crossLine wallT
  have hne : sa - ea ≠ 0 := by intro h; linarith
  have hpos : 0 < sa - ea := by linarith
  rw [if_neg hne]
  have a1 : 0 < (l - ea) / (sa - ea) := div_pos (by linarith) hpos
  have a2 : (l - ea) / (sa - ea) ≤ 1 := by rw [div_le_one hpos]; linarith
  simp [a1, a2]

/-- … and for a side that goes from `start ≤ l` up to `end > l` -/
theorem crossLine_asc (sa ea l : ℚ) (h1 : sa ≤ l) (h2 : l < ea) : crossLine sa ea l = true := by
  unfold crossLine wallT
  have hne : sa - ea ≠ 0 := by intro h; linarith
  have hneg : sa - ea < 0 := by linarith
  rw [if_neg hne]
  have a1 : 0 < (l - ea) / (sa - ea) := div_pos_of_neg_of_neg (by linarith) hneg
  have a2 : (l - ea) / (sa - ea) ≤ 1 := by rw [div_le_one_of_neg hneg]; linarith
  simp [a1, a2]

def coord (axis : Bool) (p : ℚ × ℚ) : ℚ := if axis then p.2 else p.1

theorem polyCrosses_of_pair (pts : List (ℚ × ℚ)) (axis : Bool) (l : ℚ) (uv : (ℚ × ℚ) × (ℚ × ℚ)) (hm : uv ∈ cyclicPairs pts)
    (h : crossLine (coord axis uv.1) (coord axis uv.2) l = true) : polyCrosses pts axis l = true := by
  unfold polyCrosses
  rw [List.any_eq_true]
  refine ⟨uv, hm, ?_⟩
  cases axis <;> simpa [coord] using h

/-- the polygon reaches below the line `0` along `axis` while one of its corners is at or above it ⇒ `+1` is among the pads -/
theorem pad_plus (pts : List (ℚ × ℚ)) (axis : Bool) (hlow : ∃ p ∈ pts, coord axis p < 0) (hanchor : ∃ a ∈ pts, 0 ≤ coord axis a) :
    (1 : ℤ) ∈ pads pts axis := by
  obtain ⟨uv, hm, h1, h2⟩ := cyclic_desc (fun p => 0 ≤ coord axis p) pts hanchor
    (by obtain ⟨p, hp, h⟩ := hlow; exact ⟨p, hp, not_le.mpr h⟩)
  have := polyCrosses_of_pair pts axis 0 uv hm (crossLine_desc _ _ 0 h1 (not_le.mp h2))
  unfold pads; simp [this]

/-- the polygon reaches above the line `1` along `axis` while one of its corners is below it ⇒ `−1` is among the pads -/
theorem pad_minus (pts : List (ℚ × ℚ)) (axis : Bool) (hhigh : ∃ p ∈ pts, 1 < coord axis p) (hanchor : ∃ a ∈ pts, coord axis a < 1) :
    (-1 : ℤ) ∈ pads pts axis := by
  obtain ⟨uv, hm, h1, h2⟩ := cyclic_desc (fun p => coord axis p ≤ 1) pts
    (by obtain ⟨a, ha, h⟩ := hanchor; exact ⟨a, ha, le_of_lt h⟩)
    (by obtain ⟨p, hp, h⟩ := hhigh; exact ⟨p, hp, not_le.mpr h⟩)
  have := polyCrosses_of_pair pts axis 1 uv hm (crossLine_asc _ _ 1 h1 (not_le.mp h2))
  unfold pads; simp [this]

theorem pad_zero (pts : List (ℚ × ℚ)) (axis : Bool) : (0 : ℤ) ∈ pads pts axis := by unfold pads; simp

/-- along one axis: if the copy shifted by `o ∈ {−1, 0, 1}` has corners on both sides of … (its extent meets `(0,1)`), `o` is a pad -/
theorem pad_needed (pts : List (ℚ × ℚ)) (axis : Bool) (o : ℤ) (ho : o = -1 ∨ o = 0 ∨ o = 1)
    (hanchor : ∃ a ∈ pts, 0 ≤ coord axis a ∧ coord axis a < 1)
    (hlo : ∃ p ∈ pts, coord axis p + (o : ℚ) < 1) (hhi : ∃ p ∈ pts, 0 < coord axis p + (o : ℚ)) : o ∈ pads pts axis := by
  obtain ⟨a, ha, ha0, ha1⟩ := hanchor
  rcases ho with h | h | h <;> subst h
  · obtain ⟨p, hp, h⟩ := hhi
    exact pad_minus pts axis ⟨p, hp, by push_cast at h; linarith⟩ ⟨a, ha, ha1⟩
  · exact pad_zero pts axis
  · obtain ⟨p, hp, h⟩ := hlo
    exact pad_plus pts axis ⟨p, hp, by push_cast at h; linarith⟩ ⟨a, ha, ha0⟩

/-- **C16 (plaquettes, which copies are drawn)**: the polygon of a plaquette has a corner in the unit cell `[0,1)²` (the
    vertex the walk starts from).  Every copy shifted by `(ox, oy)`, `ox, oy ∈ {−1, 0, 1}`, whose extent meets the open
    unit cell in both coordinates — in particular every copy that covers a point of the cell — is among the copies drawn. -/
theorem needed_copies_drawn (pts : List (ℚ × ℚ)) (ox oy : ℤ) (hox : ox = -1 ∨ ox = 0 ∨ ox = 1) (hoy : oy = -1 ∨ oy = 0 ∨ oy = 1)
    (hanchor : ∃ a ∈ pts, (0 ≤ a.1 ∧ a.1 < 1) ∧ (0 ≤ a.2 ∧ a.2 < 1))
    (hx : (∃ p ∈ pts, p.1 + (ox : ℚ) < 1) ∧ (∃ p ∈ pts, 0 < p.1 + (ox : ℚ)))
    (hy : (∃ p ∈ pts, p.2 + (oy : ℚ) < 1) ∧ (∃ p ∈ pts, 0 < p.2 + (oy : ℚ))) :
    (ox, oy) ∈ polyOffsets pts := by
  obtain ⟨a, ha, hax, hay⟩ := hanchor
  unfold polyOffsets
  rw [List.mem_flatMap]
  refine ⟨ox, pad_needed pts false ox hox ⟨a, ha, by simpa [coord] using hax⟩ (by simpa [coord] using hx.1) (by simpa [coord] using hx.2), ?_⟩
  rw [List.mem_map]
  exact ⟨oy, pad_needed pts true oy hoy ⟨a, ha, by simpa [coord] using hay⟩ (by simpa [coord] using hy.1) (by simpa [coord] using hy.2), rfl⟩

/-- no copy further away is needed when the polygon stays within one cell of the unit cell -/
theorem far_copies_not_needed (pts : List (ℚ × ℚ)) (o : ℤ) (axis : Bool) (hb : ∀ p ∈ pts, -1 ≤ coord axis p ∧ coord axis p ≤ 2)
    (hlo : ∃ p ∈ pts, coord axis p + (o : ℚ) < 1) (hhi : ∃ p ∈ pts, 0 < coord axis p + (o : ℚ)) : o = -1 ∨ o = 0 ∨ o = 1 := by
  obtain ⟨p, hp, h1⟩ := hlo
  obtain ⟨q, hq, h2⟩ := hhi
  have b1 := (hb p hp).1
  have b2 := (hb q hq).2
  have c1 : (o : ℚ) < 2 := by linarith
  have c2 : (-2 : ℚ) < o := by linarith
  have d1 : o < 2 := by exact_mod_cast c1
  have d2 : -2 < o := by exact_mod_cast c2
  omega

theorem pads_nodup (pts : List (ℚ × ℚ)) (axis : Bool) : (pads pts axis).Nodup := by
  unfold pads
  split <;> split <;> decide

/-- no copy is drawn twice: the offsets of the drawn copies are pairwise different -/
theorem polyOffsets_nodup (pts : List (ℚ × ℚ)) : (polyOffsets pts).Nodup := by
  unfold polyOffsets
  have hx := pads_nodup pts false
  have hy := pads_nodup pts true
  generalize pads pts false = A at hx
  generalize pads pts true = B at hy
  induction A with
  | nil => simp
  | cons a A ih =>
    rw [List.flatMap_cons, List.nodup_append]
    refine ⟨?_, ih (List.nodup_cons.mp hx).2, ?_⟩
    · exact hy.map (fun _ _ h => (Prod.mk.inj h).2)
    · intro u hu v hv huv
      subst huv
      obtain ⟨_, _, rfl⟩ := List.mem_map.mp hu
      obtain ⟨a', ha', hv'⟩ := List.mem_flatMap.mp hv
      obtain ⟨_, _, h⟩ := List.mem_map.mp hv'
      have : a' = a := (Prod.mk.inj h).1
      subst this
      exact (List.nodup_cons.mp hx).1 ha'

example : polyOffsets [((4 : ℚ) / 5, (1 : ℚ) / 5), ((6 : ℚ) / 5, (1 : ℚ) / 5), ((6 : ℚ) / 5, (4 : ℚ) / 5), ((4 : ℚ) / 5, (4 : ℚ) / 5)] = [(-1, 0), (0, 0)] := by
  decide +kernel

/-! ### a point of the cell inside a copy of the polygon (even–odd rule) lies inside a copy that is drawn -/

/-- the side of the polygon from `a` to `b` has its end points on different sides of the horizontal line `y = c` -/
def straddle (c : ℚ) (ab : (ℚ × ℚ) × (ℚ × ℚ)) : Bool := decide (ab.1.2 < c) != decide (ab.2.2 < c)

/-- where that side meets the line `y = c` -/
def xAt (c : ℚ) (ab : (ℚ × ℚ) × (ℚ × ℚ)) : ℚ := ab.1.1 + (c - ab.1.2) / (ab.2.2 - ab.1.2) * (ab.2.1 - ab.1.1)

def crossR (p : ℚ × ℚ) (ab : (ℚ × ℚ) × (ℚ × ℚ)) : Bool := straddle p.2 ab && decide (p.1 < xAt p.2 ab)
def crossL (p : ℚ × ℚ) (ab : (ℚ × ℚ) × (ℚ × ℚ)) : Bool := straddle p.2 ab && decide (xAt p.2 ab < p.1)

/-- even–odd rule: the ray from `p` to the right crosses the boundary an odd number of times -/
def insideEO (p : ℚ × ℚ) (pts : List (ℚ × ℚ)) : Prop := ((cyclicPairs pts).countP (crossR p)) % 2 = 1

/-- along a path, the number of steps that change a Boolean label has the parity of 'first label ≠ last label' -/
theorem path_parity {α : Type} (f : α → Bool) : ∀ (l : List α) (a : α),
    (((a :: l).zip l).countP fun uv => f uv.1 != f uv.2) % 2 = if f a = f (l.getLastD a) then 0 else 1 := by
  intro l
  induction l with
  | nil => intro a; simp
  | cons b t ih =>
    intro a
    rw [List.zip_cons_cons, List.countP_cons, List.getLastD_cons]
    have h := ih b
    generalize (((b :: t).zip t).countP fun uv => f uv.1 != f uv.2) = n at h ⊢
    generalize f (t.getLastD b) = fl at h ⊢
    cases hfa : f a <;> cases hfb : f b <;> cases fl <;> simp [hfa, hfb] at h ⊢ <;> omega

/-- a closed polygon meets a horizontal line in an even number of sides -/
theorem straddle_even (c : ℚ) (pts : List (ℚ × ℚ)) : ((cyclicPairs pts).countP (straddle c)) % 2 = 0 := by
  cases pts with
  | nil => simp [cyclicPairs]
  | cons x xs =>
    unfold cyclicPairs
    have := path_parity (fun q : ℚ × ℚ => decide (q.2 < c)) (xs ++ [x]) x
    have hl : (xs ++ [x]).getLastD x = x := by simp [List.getLastD_eq_getLast?]
    rw [hl] at this
    simp only [if_true] at this
    have hfun : (straddle c) = fun uv : (ℚ × ℚ) × (ℚ × ℚ) => decide (uv.1.2 < c) != decide (uv.2.2 < c) := by
      funext uv; rfl
    rw [hfun]; exact this

/-- `p` does not lie on the boundary of the polygon (no side meets the horizontal line through `p` exactly at `p`) -/
def OffBoundary (p : ℚ × ℚ) (pts : List (ℚ × ℚ)) : Prop :=
  ∀ ab ∈ cyclicPairs pts, straddle p.2 ab = true → xAt p.2 ab ≠ p.1

theorem count_split (p : ℚ × ℚ) : ∀ (l : List ((ℚ × ℚ) × (ℚ × ℚ))), (∀ ab ∈ l, straddle p.2 ab = true → xAt p.2 ab ≠ p.1) →
    l.countP (straddle p.2) = l.countP (crossR p) + l.countP (crossL p) := by
  intro l
  induction l with
  | nil => intro _; rfl
  | cons ab t ih =>
    intro h
    have iht := ih (fun x hx => h x (List.mem_cons_of_mem _ hx))
    rw [List.countP_cons, List.countP_cons, List.countP_cons, iht]
    by_cases hs : straddle p.2 ab = true
    · have hne := h ab (by simp) hs
      rcases lt_or_gt_of_ne hne with hlt | hgt
      · have h1 : crossL p ab = true := by simp [crossL, hs, hlt]
        have h2 : crossR p ab = false := by simp [crossR, hs, not_lt.mpr (le_of_lt hlt)]
        simp [hs, h1, h2]; omega
      · have h1 : crossR p ab = true := by simp [crossR, hs, hgt]
        have h2 : crossL p ab = false := by simp [crossL, hs, not_lt.mpr (le_of_lt hgt)]
        simp [hs, h1, h2]; omega
    · have hs' : straddle p.2 ab = false := by simpa using hs
      simp [crossR, crossL, hs']

theorem exists_of_odd_count {α : Type} (q : α → Bool) (l : List α) (h : l.countP q % 2 = 1) : ∃ x ∈ l, q x = true := by
  have : 0 < l.countP q := by omega
  obtain ⟨x, hx, hq⟩ := List.countP_pos_iff.mp this
  exact ⟨x, hx, hq⟩

theorem cyclicPairs_mem {α : Type} (pts : List α) (ab : α × α) (h : ab ∈ cyclicPairs pts) : ab.1 ∈ pts ∧ ab.2 ∈ pts := by
  cases pts with
  | nil => simp [cyclicPairs] at h
  | cons x xs =>
    unfold cyclicPairs at h
    obtain ⟨h1, h2⟩ := List.of_mem_zip h
    constructor
    · rcases List.mem_cons.mp h1 with h1 | h1
      · rw [h1]; simp
      · rcases List.mem_append.mp h1 with h1 | h1
        · exact List.mem_cons_of_mem _ h1
        · simp at h1; rw [h1]; simp
    · rcases List.mem_append.mp h2 with h2 | h2
      · exact List.mem_cons_of_mem _ h2
      · simp at h2; rw [h2]; simp

/-- where a straddling side meets the line lies between the `x`-coordinates of its end points -/
theorem xAt_between (c : ℚ) (ab : (ℚ × ℚ) × (ℚ × ℚ)) (hs : straddle c ab = true) :
    min ab.1.1 ab.2.1 ≤ xAt c ab ∧ xAt c ab ≤ max ab.1.1 ab.2.1 := by
  obtain ⟨⟨a1, a2⟩, ⟨b1, b2⟩⟩ := ab
  unfold straddle at hs
  simp only [bne_iff_ne, ne_eq, decide_eq_decide] at hs
  unfold xAt
  simp only
  have hden : b2 - a2 ≠ 0 := by
    intro h
    have : a2 = b2 := by linarith
    subst this
    exact hs Iff.rfl
  set t := (c - a2) / (b2 - a2) with ht
  have ht01 : 0 ≤ t ∧ t ≤ 1 := by
    by_cases h1 : a2 < c
    · have h2 : ¬ b2 < c := fun h => hs ⟨fun _ => h, fun _ => h1⟩
      have h2' := not_lt.mp h2
      have hpos : 0 < b2 - a2 := by linarith
      constructor
      · exact div_nonneg (by linarith) (le_of_lt hpos)
      · rw [ht, div_le_one hpos]; linarith
    · have h2 : b2 < c := by
        by_contra h
        exact hs ⟨fun h' => absurd h' h1, fun h' => absurd h' h⟩
      have h1' := not_lt.mp h1
      have hneg : b2 - a2 < 0 := by linarith
      constructor
      · exact div_nonneg_of_nonpos (by linarith) (le_of_lt hneg)
      · rw [ht, div_le_one_of_neg hneg]; linarith
  have e : a1 + t * (b1 - a1) = (1 - t) * a1 + t * b1 := by ring
  rw [e]
  constructor
  · rcases le_total a1 b1 with h | h
    · rw [min_eq_left h]; nlinarith [ht01.1, ht01.2]
    · rw [min_eq_right h]; nlinarith [ht01.1, ht01.2]
  · rcases le_total a1 b1 with h | h
    · rw [max_eq_right h]; nlinarith [ht01.1, ht01.2]
    · rw [max_eq_left h]; nlinarith [ht01.1, ht01.2]

/-- a point inside the polygon (even–odd rule, not on its boundary) lies strictly inside the bounding box in `x` and within it in `y` -/
theorem inside_bbox (p : ℚ × ℚ) (pts : List (ℚ × ℚ)) (hin : insideEO p pts) (hoff : OffBoundary p pts) :
    (∃ v ∈ pts, v.1 < p.1) ∧ (∃ v ∈ pts, p.1 < v.1) ∧ (∃ v ∈ pts, v.2 < p.2) ∧ (∃ v ∈ pts, p.2 ≤ v.2) := by
  have hsplit := count_split p (cyclicPairs pts) hoff
  have heven := straddle_even p.2 pts
  unfold insideEO at hin
  have hL : (cyclicPairs pts).countP (crossL p) % 2 = 1 := by omega
  obtain ⟨ab, habm, hab⟩ := exists_of_odd_count (crossR p) _ hin
  obtain ⟨cd, hcdm, hcd⟩ := exists_of_odd_count (crossL p) _ hL
  obtain ⟨ha, hb⟩ := cyclicPairs_mem pts ab habm
  obtain ⟨hc, hd⟩ := cyclicPairs_mem pts cd hcdm
  unfold crossR at hab; unfold crossL at hcd
  simp only [Bool.and_eq_true, decide_eq_true_eq] at hab hcd
  have bR := xAt_between p.2 ab hab.1
  have bL := xAt_between p.2 cd hcd.1
  refine ⟨?_, ?_, ?_, ?_⟩
  · rcases le_total cd.1.1 cd.2.1 with h | h
    · exact ⟨cd.1, hc, by rw [min_eq_left h] at bL; linarith [bL.1, hcd.2]⟩
    · exact ⟨cd.2, hd, by rw [min_eq_right h] at bL; linarith [bL.1, hcd.2]⟩
  · rcases le_total ab.1.1 ab.2.1 with h | h
    · exact ⟨ab.2, hb, by rw [max_eq_right h] at bR; linarith [bR.2, hab.2]⟩
    · exact ⟨ab.1, ha, by rw [max_eq_left h] at bR; linarith [bR.2, hab.2]⟩
  · have hs := hab.1
    unfold straddle at hs
    simp only [bne_iff_ne, ne_eq, decide_eq_decide] at hs
    by_cases h1 : ab.1.2 < p.2
    · exact ⟨ab.1, ha, h1⟩
    · have h2 : ab.2.2 < p.2 := by
        by_contra h
        exact hs ⟨fun h' => absurd h' h1, fun h' => absurd h' h⟩
      exact ⟨ab.2, hb, h2⟩
  · have hs := hab.1
    unfold straddle at hs
    simp only [bne_iff_ne, ne_eq, decide_eq_decide] at hs
    by_cases h1 : ab.1.2 < p.2
    · have h2 : ¬ ab.2.2 < p.2 := fun h => hs ⟨fun _ => h, fun _ => h1⟩
      exact ⟨ab.2, hb, not_lt.mp h2⟩
    · exact ⟨ab.1, ha, not_lt.mp h1⟩

/-- **C16 (plaquettes, coverage)**: a point `q` of the open unit cell that lies inside the copy of the polygon shifted by
    `(ox, oy)`, `ox, oy ∈ {−1, 0, 1}` (even–odd rule, `q` not on the copy's boundary) lies inside a copy that `plot_plaquettes`
    draws: the offset `(ox, oy)` is among the drawn ones.  (The polygon has a corner in `[0,1)²`: the vertex its walk starts from.) -/
theorem covered_point_drawn (pts : List (ℚ × ℚ)) (ox oy : ℤ) (hox : ox = -1 ∨ ox = 0 ∨ ox = 1) (hoy : oy = -1 ∨ oy = 0 ∨ oy = 1)
    (hanchor : ∃ a ∈ pts, (0 ≤ a.1 ∧ a.1 < 1) ∧ (0 ≤ a.2 ∧ a.2 < 1))
    (q : ℚ × ℚ) (hq : 0 < q.1 ∧ q.1 < 1 ∧ 0 < q.2 ∧ q.2 < 1)
    (hin : insideEO (q.1 - (ox : ℚ), q.2 - (oy : ℚ)) pts) (hoff : OffBoundary (q.1 - (ox : ℚ), q.2 - (oy : ℚ)) pts) :
    (ox, oy) ∈ polyOffsets pts := by
  obtain ⟨⟨v1, hv1, h1⟩, ⟨v2, hv2, h2⟩, ⟨v3, hv3, h3⟩, ⟨v4, hv4, h4⟩⟩ := inside_bbox _ pts hin hoff
  simp only at h1 h2 h3 h4
  exact needed_copies_drawn pts ox oy hox hoy hanchor
    ⟨⟨v1, hv1, by linarith [hq.2.1]⟩, ⟨v2, hv2, by linarith [hq.1]⟩⟩
    ⟨⟨v3, hv3, by linarith [hq.2.2.2]⟩, ⟨v4, hv4, by linarith [hq.2.2.1]⟩⟩

/-- non-vacuity: the point (1/10, 1/2) of the cell is inside the copy shifted by (−1, 0) of the square [4/5, 6/5] × [1/5, 4/5] -/
example : insideEO ((1 : ℚ) / 10 - ((-1 : ℤ) : ℚ), (1 : ℚ) / 2 - ((0 : ℤ) : ℚ))
    [((4 : ℚ) / 5, (1 : ℚ) / 5), ((6 : ℚ) / 5, (1 : ℚ) / 5), ((6 : ℚ) / 5, (4 : ℚ) / 5), ((4 : ℚ) / 5, (4 : ℚ) / 5)] := by
  unfold insideEO; decide +kernel


end C16
