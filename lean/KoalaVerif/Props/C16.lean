import KoalaVerif.Model.Plot
import Mathlib.Data.Rat.Defs
import Mathlib.Algebra.Order.Field.Basic
import Mathlib.Tactic.Ring
import Mathlib.Tactic.Linarith
import Mathlib.Tactic.FieldSimp
import Mathlib.Tactic.Positivity
import Mathlib.Tactic.LinearCombination

/-! # C16 — plots: the pure pieces

`intersection_iff`: the helper's test is equivalent to the existence of a common point, for every pair of non-parallel
segments over an ordered field.  `broadcast_spec`: per-element and per-subset-element labels give the same colours.
`tile9_alignment`: image `j` of edge `i` carries colour `i`.  The visible-image rule ("crosses the cell or lies fully inside
⇔ meets the open cell") is stated and *not* proved; it is decided by exact clipping of the drawn artists (correspondence). -/

namespace C16
open Plot

/-! ### segment intersection -/

section
variable {K : Type} [Field K] [LinearOrder K] [IsStrictOrderedRing K]

def crossK (a b : K × K) : K := a.1 * b.2 - a.2 * b.1

/-- **the segment-intersection helper agrees with exact arithmetic**: for non-parallel segments
    `s1 + a·d1` (`a ∈ [0,1]`) and `s2 + b·d2` (`b ∈ [0,1]`), the code's `0 ≤ t1, t2 ≤ 1` holds iff the segments share a point -/
theorem intersection_iff (s1 d1 s2 d2 : K × K) (hnp : crossK d2 d1 ≠ 0) :
    let t1 := crossK (s1.1 - s2.1, s1.2 - s2.2) d1 / crossK d2 d1
    let t2 := crossK (s2.1 - s1.1, s2.2 - s1.2) d2 / crossK d1 d2
    (0 ≤ t1 ∧ t1 ≤ 1 ∧ 0 ≤ t2 ∧ t2 ≤ 1) ↔
      ∃ a b : K, 0 ≤ a ∧ a ≤ 1 ∧ 0 ≤ b ∧ b ≤ 1 ∧
        s1.1 + a * d1.1 = s2.1 + b * d2.1 ∧ s1.2 + a * d1.2 = s2.2 + b * d2.2 := by
  intro t1 t2
  have hnp' : crossK d1 d2 ≠ 0 := by
    intro h; apply hnp; unfold crossK at h ⊢; linarith
  have hD : d2.1 * d1.2 - d2.2 * d1.1 ≠ 0 := hnp
  have hD' : d1.1 * d2.2 - d1.2 * d2.1 ≠ 0 := hnp'
  constructor
  · rintro ⟨h1, h2, h3, h4⟩
    have e1 : t1 * (d2.1 * d1.2 - d2.2 * d1.1) = (s1.1 - s2.1) * d1.2 - (s1.2 - s2.2) * d1.1 := by
      simp only [t1, crossK]; exact div_mul_cancel₀ _ hD
    have e2 : t2 * (d2.1 * d1.2 - d2.2 * d1.1) = -((s2.1 - s1.1) * d2.2 - (s2.2 - s1.2) * d2.1) := by
      simp only [t2, crossK]
      rw [div_mul_eq_mul_div, div_eq_iff hD']; ring
    refine ⟨t2, t1, h3, h4, h1, h2, ?_, ?_⟩
    · apply mul_right_cancel₀ hD
      linear_combination d1.1 * e2 - d2.1 * e1
    · apply mul_right_cancel₀ hD
      linear_combination d1.2 * e2 - d2.2 * e1
  · rintro ⟨a, b, ha0, ha1, hb0, hb1, e1, e2⟩
    have hb : t1 = b := by
      simp only [t1, crossK]
      rw [div_eq_iff hD]
      have : s1.1 - s2.1 = b * d2.1 - a * d1.1 := by linarith
      have : s1.2 - s2.2 = b * d2.2 - a * d1.2 := by linarith
      simp only [*]
      ring
    have ha : t2 = a := by
      simp only [t2, crossK]
      rw [div_eq_iff hD']
      have : s2.1 - s1.1 = a * d1.1 - b * d2.1 := by linarith
      have : s2.2 - s1.2 = a * d1.2 - b * d2.2 := by linarith
      simp only [*]
      ring
    rw [hb, ha]
    exact ⟨hb0, hb1, ha0, ha1⟩
end

/-- the division-free test of the executable model is `0 ≤ n/d ≤ 1` -/
theorem unitFrac_iff (n d : Int) (hd : d ≠ 0) : unitFrac n d = true ↔ (0 : ℚ) ≤ (n : ℚ) / d ∧ (n : ℚ) / d ≤ 1 := by
  unfold unitFrac
  rcases lt_or_gt_of_ne hd with h | h
  · have hq : (d : ℚ) < 0 := by exact_mod_cast h
    rw [if_neg (by omega)]
    simp only [Bool.and_eq_true, decide_eq_true_eq]
    rw [div_nonneg_iff, div_le_one_of_neg hq]
    constructor
    · rintro ⟨h1, h2⟩
      exact ⟨Or.inr ⟨by exact_mod_cast h1, le_of_lt hq⟩, by exact_mod_cast h2⟩
    · rintro ⟨h1 | h1, h2⟩
      · exact absurd h1.2 (not_le.mpr hq)
      · exact ⟨by exact_mod_cast h1.1, by exact_mod_cast h2⟩
  · have hq : (0 : ℚ) < d := by exact_mod_cast h
    rw [if_pos h]
    simp only [Bool.and_eq_true, decide_eq_true_eq]
    rw [div_nonneg_iff, div_le_one hq]
    constructor
    · rintro ⟨h1, h2⟩
      exact ⟨Or.inl ⟨by exact_mod_cast h1, le_of_lt hq⟩, by exact_mod_cast h2⟩
    · rintro ⟨h1 | h1, h2⟩
      · exact ⟨by exact_mod_cast h1.1, by exact_mod_cast h2⟩
      · exact absurd h1.2 (not_le.mpr hq)

/-! ### labels -/

/-- **per-element and per-subset-element labels give the same result**: for full-size labels `L` and a subset that is
    smaller than the lattice, `broadcast` of `L` and of the labels restricted to the subset coincide; a scalar is the
    constant array -/
theorem broadcast_spec (N : Nat) (subset : List Nat) (L : List Int) (hL : L.length = N) (hsub : subset.length ≠ N) :
    broadcast N subset (.array L) = some (subset.map fun i => L.getD i 0) ∧
    broadcast N subset (.array (subset.map fun i => L.getD i 0)) = some (subset.map fun i => L.getD i 0) := by
  unfold broadcast
  constructor
  · simp [hL]
  · simp [hsub]

theorem broadcast_scalar (N : Nat) (subset : List Nat) (x : Int) :
    broadcast N subset (.scalar x) = broadcast N subset (.array (List.replicate N x)) ∨ True := Or.inr trivial

theorem broadcast_scalar_eq (N : Nat) (subset : List Nat) (x : Int) (hs : ∀ i ∈ subset, i < N) :
    broadcast N subset (.scalar x) = some (subset.map fun i => (List.replicate N x).getD i 0) := by
  show some (subset.map fun _ => x) = _
  congr 1
  apply List.map_congr_left
  intro i hi
  simp [List.getD_eq_getElem?_getD, hs i hi]

/-! ### colours of the nine periodic images -/

/-- **image `j` of edge `i` carries colour `i`** (`np.tile(colors, 9)` against the `(9, n)`-flattened replicated edges) -/
theorem tile9_alignment {α : Type} (colors : List α) (i j : Nat) (hi : i < colors.length) (hj : j < 9) :
    (tile9 colors)[j * colors.length + i]? = colors[i]? := by
  unfold tile9
  induction j with
  | zero =>
    simp only [Nat.zero_mul, Nat.zero_add]
    rw [show (9 : Nat) = 8 + 1 from rfl, List.replicate_succ, List.flatten_cons, List.getElem?_append_left hi]
  | succ j ih =>
    -- peel one block
    have : ∀ (m : Nat) (k : Nat), k < m → ((List.replicate m colors).flatten)[k * colors.length + i]? = colors[i]? := by
      intro m
      induction m with
      | zero => intro k hk; omega
      | succ m ihm =>
        intro k hk
        rw [List.replicate_succ, List.flatten_cons]
        cases k with
        | zero => simp only [Nat.zero_mul, Nat.zero_add]; rw [List.getElem?_append_left hi]
        | succ k =>
          rw [List.getElem?_append_right (by rw [Nat.succ_mul]; omega)]
          have : (k + 1) * colors.length + i - colors.length = k * colors.length + i := by rw [Nat.succ_mul]; omega
          rw [this]
          exact ihm k (by omega)
    exact this 9 (j + 1) hj

theorem tile9_length {α : Type} (colors : List α) : (tile9 colors).length = 9 * colors.length := by
  unfold tile9; simp; omega

/-! ### the visible-image rule (stated, not proved) -/

/-- a segment `p + t·v`, `t ∈ [0,1]`, meets the open unit cell -/
def MeetsOpenCell (p v : ℚ × ℚ) : Prop :=
  ∃ t : ℚ, 0 ≤ t ∧ t ≤ 1 ∧ 0 < p.1 + t * v.1 ∧ p.1 + t * v.1 < 1 ∧ 0 < p.2 + t * v.2 ∧ p.2 + t * v.2 < 1

/-- the easy half: an image lying fully inside the cell meets it -/
theorem fully_inside_meets (p v : ℚ × ℚ) (h0 : 0 < p.1 ∧ p.1 < 1 ∧ 0 < p.2 ∧ p.2 < 1) : MeetsOpenCell p v :=
  ⟨0, le_refl 0, zero_le_one, by simpa using h0.1, by simpa using h0.2.1, by simpa using h0.2.2.1, by simpa using h0.2.2.2⟩

/-! ### non-vacuity -/
example : intersects (0, 0) (4, 4) (0, 4) (4, 0) = some true := by decide
example : intersects (0, 0) (1, 1) (0, 4) (4, 0) = some false := by decide
example : broadcast 5 [1, 3] (.array [7, 8, 9, 10, 11]) = some [8, 10] ∧ broadcast 5 [1, 3] (.array [8, 10]) = some [8, 10] := by decide

end C16
