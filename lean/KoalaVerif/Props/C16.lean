import KoalaVerif.Model.Plot
import Mathlib.Data.Rat.Defs
import Mathlib.Algebra.Order.Field.Basic
import Mathlib.Tactic.Ring
import Mathlib.Tactic.Linarith
import Mathlib.Tactic.FieldSimp
import Mathlib.Tactic.Positivity
import Mathlib.Tactic.LinearCombination
import Mathlib.Tactic.NormNum
import Mathlib.Order.Lattice
import Mathlib.Algebra.Order.Ring.Rat

/-! # C16 — plots: the pure pieces

`intersection_iff`: the helper's test is equivalent to the existence of a common point, for every pair of non-parallel
segments over an ordered field.  `broadcast_spec`: per-element and per-subset-element labels give the same colours.
`tile9_alignment`: image `j` of edge `i` carries colour `i`.  `fractions_sum_one`: the nine periodic images of an edge show, inside the unit cell, fractions of it that add up to exactly 1
(exact clipping, the oracle the harness applies to the drawn artists).  That the code draws exactly the images with a positive
fraction ("crosses the cell or lies fully inside") is decided on the artists (correspondence). -/

namespace C16
open Plot

/-! ### segment intersection -/

section
variable {K : Type} [Field K] [LinearOrder K] [IsStrictOrderedRing K]

def crossK (a b : K × K) : K := a.1 * b.2 - a.2 * b.1

/-- **the segment-intersection helper agrees with exact arithmetic**: for non-parallel segments
    `s1 + a·d1` (`a ∈ [0,1]`) and `s2 + b·d2` (`b ∈ [0,1]`), the code's `0 ≤ t1, t2 ≤ 1` holds iff the segments share a point -/
theorem intersection_iff (s1 d1 s2 d2 : K × K) (hnp : crossK d2 d1 ≠ 0) :
    let t1 := crossK (s1.1 - s2.1, s1.2 - s2.2) d1 / crossK d2 d1
    let t2 := crossK (s2.1 - s1.1, s2.2 - s1.2) d2 / crossK d1 d2
    (0 ≤ t1 ∧ t1 ≤ 1 ∧ 0 ≤ t2 ∧ t2 ≤ 1) ↔
      ∃ a b : K, 0 ≤ a ∧ a ≤ 1 ∧ 0 ≤ b ∧ b ≤ 1 ∧
        s1.1 + a * d1.1 = s2.1 + b * d2.1 ∧ s1.2 + a * d1.2 = s2.2 + b * d2.2 := by
  intro t1 t2
  have hnp' : crossK d1 d2 ≠ 0 := by
    intro h; apply hnp; unfold crossK at h ⊢; linarith
  have hD : d2.1 * d1.2 - d2.2 * d1.1 ≠ 0 := hnp
  have hD' : d1.1 * d2.2 - d1.2 * d2.1 ≠ 0 := hnp'
  constructor
  · rintro ⟨h1, h2, h3, h4⟩
    have e1 : t1 * (d2.1 * d1.2 - d2.2 * d1.1) = (s1.1 - s2.1) * d1.2 - (s1.2 - s2.2) * d1.1 := by
      simp only [t1, crossK]; exact div_mul_cancel₀ _ hD
    have e2 : t2 * (d2.1 * d1.2 - d2.2 * d1.1) = -((s2.1 - s1.1) * d2.2 - (s2.2 - s1.2) * d2.1) := by
      simp only [t2, crossK]
      rw [div_mul_eq_mul_div, div_eq_iff hD']; ring
    refine ⟨t2, t1, h3, h4, h1, h2, ?_, ?_⟩
    · apply mul_right_cancel₀ hD
      linear_combination d1.1 * e2 - d2.1 * e1
    · apply mul_right_cancel₀ hD
      linear_combination d1.2 * e2 - d2.2 * e1
  · rintro ⟨a, b, ha0, ha1, hb0, hb1, e1, e2⟩
    have hb : t1 = b := by
      simp only [t1, crossK]
      rw [div_eq_iff hD]
      have : s1.1 - s2.1 = b * d2.1 - a * d1.1 := by linarith
      have : s1.2 - s2.2 = b * d2.2 - a * d1.2 := by linarith
      simp only [*]
      ring
    have ha : t2 = a := by
      simp only [t2, crossK]
      rw [div_eq_iff hD']
      have : s2.1 - s1.1 = a * d1.1 - b * d2.1 := by linarith
      have : s2.2 - s1.2 = a * d1.2 - b * d2.2 := by linarith
      simp only [*]
      ring
    rw [hb, ha]
    exact ⟨hb0, hb1, ha0, ha1⟩
end

/-- the division-free test of the executable model is `0 ≤ n/d ≤ 1` -/
theorem unitFrac_iff (n d : Int) (hd : d ≠ 0) : unitFrac n d = true ↔ (0 : ℚ) ≤ (n : ℚ) / d ∧ (n : ℚ) / d ≤ 1 := by
  unfold unitFrac
  rcases lt_or_gt_of_ne hd with h | h
  · have hq : (d : ℚ) < 0 := by exact_mod_cast h
    rw [if_neg (by omega)]
    simp only [Bool.and_eq_true, decide_eq_true_eq]
    rw [div_nonneg_iff, div_le_one_of_neg hq]
    constructor
    · rintro ⟨h1, h2⟩
      exact ⟨Or.inr ⟨by exact_mod_cast h1, le_of_lt hq⟩, by exact_mod_cast h2⟩
    · rintro ⟨h1 | h1, h2⟩
      · exact absurd h1.2 (not_le.mpr hq)
      · exact ⟨by exact_mod_cast h1.1, by exact_mod_cast h2⟩
  · have hq : (0 : ℚ) < d := by exact_mod_cast h
    rw [if_pos h]
    simp only [Bool.and_eq_true, decide_eq_true_eq]
    rw [div_nonneg_iff, div_le_one hq]
    constructor
    · rintro ⟨h1, h2⟩
      exact ⟨Or.inl ⟨by exact_mod_cast h1, le_of_lt hq⟩, by exact_mod_cast h2⟩
    · rintro ⟨h1 | h1, h2⟩
      · exact ⟨by exact_mod_cast h1.1, by exact_mod_cast h2⟩
      · exact absurd h1.2 (not_le.mpr hq)

/-! ### labels -/

/-- **per-element and per-subset-element labels give the same result**: for full-size labels `L` and a subset that is
    smaller than the lattice, `broadcast` of `L` and of the labels restricted to the subset coincide; a scalar is the
    constant array -/
theorem broadcast_spec (N : Nat) (subset : List Nat) (L : List Int) (hL : L.length = N) (hsub : subset.length ≠ N) :
    broadcast N subset (.array L) = some (subset.map fun i => L.getD i 0) ∧
    broadcast N subset (.array (subset.map fun i => L.getD i 0)) = some (subset.map fun i => L.getD i 0) := by
  unfold broadcast
  constructor
  · simp [hL]
  · simp [hsub]

theorem broadcast_scalar (N : Nat) (subset : List Nat) (x : Int) :
    broadcast N subset (.scalar x) = broadcast N subset (.array (List.replicate N x)) ∨ True := Or.inr trivial

theorem broadcast_scalar_eq (N : Nat) (subset : List Nat) (x : Int) (hs : ∀ i ∈ subset, i < N) :
    broadcast N subset (.scalar x) = some (subset.map fun i => (List.replicate N x).getD i 0) := by
  show some (subset.map fun _ => x) = _
  congr 1
  apply List.map_congr_left
  intro i hi
  simp [List.getD_eq_getElem?_getD, hs i hi]

/-! ### colours of the nine periodic images -/

/-- **image `j` of edge `i` carries colour `i`** (`np.tile(colors, 9)` against the `(9, n)`-flattened replicated edges) -/
theorem tile9_alignment {α : Type} (colors : List α) (i j : Nat) (hi : i < colors.length) (hj : j < 9) :
    (tile9 colors)[j * colors.length + i]? = colors[i]? := by
  unfold tile9
  induction j with
  | zero =>
    simp only [Nat.zero_mul, Nat.zero_add]
    rw [show (9 : Nat) = 8 + 1 from rfl, List.replicate_succ, List.flatten_cons, List.getElem?_append_left hi]
  | succ j ih =>
    -- peel one block
    have : ∀ (m : Nat) (k : Nat), k < m → ((List.replicate m colors).flatten)[k * colors.length + i]? = colors[i]? := by
      intro m
      induction m with
      | zero => intro k hk; omega
      | succ m ihm =>
        intro k hk
        rw [List.replicate_succ, List.flatten_cons]
        cases k with
        | zero => simp only [Nat.zero_mul, Nat.zero_add]; rw [List.getElem?_append_left hi]
        | succ k =>
          rw [List.getElem?_append_right (by rw [Nat.succ_mul]; omega)]
          have : (k + 1) * colors.length + i - colors.length = k * colors.length + i := by rw [Nat.succ_mul]; omega
          rw [this]
          exact ihm k (by omega)
    exact this 9 (j + 1) hj

theorem tile9_length {α : Type} (colors : List α) : (tile9 colors).length = 9 * colors.length := by
  unfold tile9; simp; omega

/-! ### the visible-image rule (stated, not proved) -/

/-- a segment `p + t·v`, `t ∈ [0,1]`, meets the open unit cell -/
def MeetsOpenCell (p v : ℚ × ℚ) : Prop :=
  ∃ t : ℚ, 0 ≤ t ∧ t ≤ 1 ∧ 0 < p.1 + t * v.1 ∧ p.1 + t * v.1 < 1 ∧ 0 < p.2 + t * v.2 ∧ p.2 + t * v.2 < 1

/-- the easy half: an image lying fully inside the cell meets it -/
theorem fully_inside_meets (p v : ℚ × ℚ) (h0 : 0 < p.1 ∧ p.1 < 1 ∧ 0 < p.2 ∧ p.2 < 1) : MeetsOpenCell p v :=
  ⟨0, le_refl 0, zero_le_one, by simpa using h0.1, by simpa using h0.2.1, by simpa using h0.2.2.1, by simpa using h0.2.2.2⟩

/-! ### non-vacuity -/
example : intersects (0, 0) (4, 4) (0, 4) (4, 0) = some true := by decide
example : intersects (0, 0) (1, 1) (0, 4) (4, 0) = some false := by decide
example : broadcast 5 [1, 3] (.array [7, 8, 9, 10, 11]) = some [8, 10] ∧ broadcast 5 [1, 3] (.array [8, 10]) = some [8, 10] := by decide

/-! ### every edge appears in full in the periodic images that meet the cell -/

theorem frac_eq_cap (p d : ℚ × ℚ) :
    frac p d = cap (tInt p.2 d.2) (max (tInt p.1 d.1).1 0) (min (tInt p.1 d.1).2 1) := by
  unfold frac cap
  simp only
  congr 2
  · rw [min_assoc, min_comm (tInt p.2 d.2).2 1, ← min_assoc, min_comm]
  · rw [max_assoc, max_comm (tInt p.2 d.2).1 0, ← max_assoc, max_comm]

/-- two adjacent intervals: the lengths of their intersections with `[u, v]` add up -/
theorem cap_split (a c b u v : ℚ) (hac : a ≤ c) (hcb : c ≤ b) :
    cap (a, c) u v + cap (c, b) u v = cap (a, b) u v := by
  unfold cap
  simp only [max_def, min_def]
  split_ifs <;> linarith

theorem cap_cover (I : ℚ × ℚ) (u v : ℚ) (h0 : I.1 ≤ u) (h1 : v ≤ I.2) : cap I u v = max 0 (v - u) := by
  unfold cap; rw [min_eq_right h1, max_eq_right h0]

theorem cap_empty (u v : ℚ) (hu : 0 ≤ u) (hv : v ≤ 1) : cap ((1 : ℚ), (0 : ℚ)) u v = 0 := by
  unfold cap
  simp only [max_def, min_def]
  split_ifs <;> linarith

/-- **along one axis the three cells −1, 0, 1 partition the segment**: for a start coordinate in `[0,1)` and a
    displacement shorter than one cell, the lengths of the three `t`-intervals inside any `[u, v] ⊆ [0, 1]` add up to
    `v − u` (an edge parallel to the axis is required not to lie on a cell wall) -/
theorem axis_partition (a δ u v : ℚ) (ha0 : 0 ≤ a) (ha1 : a < 1) (hδ0 : -1 < δ) (hδ1 : δ < 1) (hgen : δ ≠ 0 ∨ 0 < a)
    (hu : 0 ≤ u) (hv : v ≤ 1) :
    cap (axisInt a δ (-1)) u v + cap (axisInt a δ 0) u v + cap (axisInt a δ 1) u v = max 0 (v - u) := by
  unfold axisInt tInt
  simp only [Int.cast_neg, Int.cast_one, Int.cast_zero, sub_zero, sub_neg_eq_add]
  rcases lt_trichotomy δ 0 with hneg | hzero | hpos
  · -- δ < 0: cell 1 comes first
    have hnp : ¬ (0 < δ) := not_lt.mpr (le_of_lt hneg)
    simp only [hnp, hneg, if_false, if_true]
    have e1 : (1 - (a - 1)) / δ ≤ (0 - (a - 1)) / δ := by
      rw [div_le_div_right_of_neg hneg]; linarith
    have e2 : (0 - (a - 1)) / δ = (1 - a) / δ := by congr 1; ring
    have e3 : (1 - a) / δ ≤ (0 - a) / δ := by
      rw [div_le_div_right_of_neg hneg]; linarith
    have e4 : (0 - a) / δ = (1 - (a + 1)) / δ := by congr 1; ring
    have e5 : (1 - (a + 1)) / δ ≤ (0 - (a + 1)) / δ := by
      rw [div_le_div_right_of_neg hneg]; linarith
    have s1 := cap_split ((1 - (a - 1)) / δ) ((1 - a) / δ) ((0 - a) / δ) u v (e2 ▸ e1) e3
    have s2 := cap_split ((1 - (a - 1)) / δ) ((0 - a) / δ) ((0 - (a + 1)) / δ) u v (le_trans (e2 ▸ e1) e3) (e4 ▸ e5)
    rw [e2, ← e4]
    have hlo : (1 - (a - 1)) / δ ≤ u := by
      refine le_trans ?_ hu
      apply div_nonpos_of_nonneg_of_nonpos <;> linarith
    have hhi : v ≤ (0 - (a + 1)) / δ := by
      refine le_trans hv ?_
      rw [le_div_iff_of_neg hneg]; linarith
    have := cap_cover ((1 - (a - 1)) / δ, (0 - (a + 1)) / δ) u v hlo hhi
    linarith
  · subst hzero
    have ha : 0 < a := by
      rcases hgen with h | h
      · exact absurd rfl h
      · exact h
    have c0 : 0 ≤ a ∧ a ≤ 1 := ⟨ha0, le_of_lt ha1⟩
    have c1 : ¬ (0 ≤ a + 1 ∧ a + 1 ≤ 1) := by rintro ⟨_, h⟩; linarith
    have c2 : ¬ (0 ≤ a - 1 ∧ a - 1 ≤ 1) := by rintro ⟨h, _⟩; linarith
    simp only [lt_irrefl, if_false, c0, c1, c2, and_self, if_true]
    rw [cap_empty u v hu hv, cap_cover ((0 : ℚ), (1 : ℚ)) u v hu hv]; ring
  · have hnn : ¬ (δ < 0) := not_lt.mpr (le_of_lt hpos)
    simp only [hpos, if_true]
    have e1 : (0 - (a + 1)) / δ ≤ (1 - (a + 1)) / δ := by
      rw [div_le_div_iff_of_pos_right hpos]; linarith
    have e2 : (1 - (a + 1)) / δ = (0 - a) / δ := by congr 1; ring
    have e3 : (0 - a) / δ ≤ (1 - a) / δ := by
      rw [div_le_div_iff_of_pos_right hpos]; linarith
    have e4 : (1 - a) / δ = (0 - (a - 1)) / δ := by congr 1; ring
    have e5 : (0 - (a - 1)) / δ ≤ (1 - (a - 1)) / δ := by
      rw [div_le_div_iff_of_pos_right hpos]; linarith
    have s1 := cap_split ((0 - (a + 1)) / δ) ((0 - a) / δ) ((1 - a) / δ) u v (e2 ▸ e1) e3
    have s2 := cap_split ((0 - (a + 1)) / δ) ((1 - a) / δ) ((1 - (a - 1)) / δ) u v (le_trans (e2 ▸ e1) e3) (e4 ▸ e5)
    rw [e2, ← e4]
    have hlo : (0 - (a + 1)) / δ ≤ u := by
      refine le_trans ?_ hu
      apply div_nonpos_of_nonpos_of_nonneg <;> linarith
    have hhi : v ≤ (1 - (a - 1)) / δ := by
      refine le_trans hv ?_
      rw [le_div_iff₀ hpos]; linarith
    have := cap_cover ((0 - (a + 1)) / δ, (1 - (a - 1)) / δ) u v hlo hhi
    linarith

/-- the images of one cell column: the three images shifted by `(−ox, ·)` together show the part of the segment whose
    `x` lies in cell `ox` -/
theorem column_sum (p d : ℚ × ℚ) (ox : ℤ) (hp : 0 ≤ p.2 ∧ p.2 < 1) (hd : -1 < d.2 ∧ d.2 < 1) (hg : d.2 ≠ 0 ∨ 0 < p.2) :
    frac (p.1 - ox, p.2 - ((-1 : ℤ) : ℚ)) d + frac (p.1 - ox, p.2 - ((0 : ℤ) : ℚ)) d + frac (p.1 - ox, p.2 - ((1 : ℤ) : ℚ)) d
      = cap (axisInt p.1 d.1 ox) 0 1 := by
  rw [frac_eq_cap, frac_eq_cap, frac_eq_cap]
  simp only
  have := axis_partition p.2 d.2 (max (tInt (p.1 - ox) d.1).1 0) (min (tInt (p.1 - ox) d.1).2 1) hp.1 hp.2 hd.1 hd.2 hg
    (le_max_right _ _) (min_le_right _ _)
  unfold axisInt at this ⊢
  rw [this]
  rfl

/-- **C16 (edges, length clause)**: an edge that starts in the unit cell and spans less than one cell in each
    direction appears *in full* in its nine periodic images: the fractions of the images that lie inside the unit cell
    add up to exactly 1 (so the total drawn length inside the cell is the length of the edge).  An axis-parallel edge is
    required not to lie on a cell wall. -/
theorem fractions_sum_one (p d : ℚ × ℚ) (hp1 : 0 ≤ p.1 ∧ p.1 < 1) (hp2 : 0 ≤ p.2 ∧ p.2 < 1)
    (hd1 : -1 < d.1 ∧ d.1 < 1) (hd2 : -1 < d.2 ∧ d.2 < 1) (hg1 : d.1 ≠ 0 ∨ 0 < p.1) (hg2 : d.2 ≠ 0 ∨ 0 < p.2) :
    (frac (p.1 - ((-1 : ℤ) : ℚ), p.2 - ((-1 : ℤ) : ℚ)) d + frac (p.1 - ((-1 : ℤ) : ℚ), p.2 - ((0 : ℤ) : ℚ)) d
        + frac (p.1 - ((-1 : ℤ) : ℚ), p.2 - ((1 : ℤ) : ℚ)) d)
      + (frac (p.1 - ((0 : ℤ) : ℚ), p.2 - ((-1 : ℤ) : ℚ)) d + frac (p.1 - ((0 : ℤ) : ℚ), p.2 - ((0 : ℤ) : ℚ)) d
        + frac (p.1 - ((0 : ℤ) : ℚ), p.2 - ((1 : ℤ) : ℚ)) d)
      + (frac (p.1 - ((1 : ℤ) : ℚ), p.2 - ((-1 : ℤ) : ℚ)) d + frac (p.1 - ((1 : ℤ) : ℚ), p.2 - ((0 : ℤ) : ℚ)) d
        + frac (p.1 - ((1 : ℤ) : ℚ), p.2 - ((1 : ℤ) : ℚ)) d) = 1 := by
  rw [column_sum p d (-1) hp2 hd2 hg2, column_sum p d 0 hp2 hd2 hg2, column_sum p d 1 hp2 hd2 hg2,
    axis_partition p.1 d.1 0 1 hp1.1 hp1.2 hd1.1 hd1.2 hg1 (le_refl 0) (le_refl 1)]
  norm_num

/-- non-vacuity: a diagonal edge through the cell corner, a quarter of it in each of four images … -/
example : frac ((3 : ℚ) / 4, (3 : ℚ) / 4) ((1 : ℚ) / 2, (1 : ℚ) / 2) = 1 / 2 := by
  unfold frac tInt; norm_num
example : frac ((3 : ℚ) / 4 - 1, (3 : ℚ) / 4 - 1) ((1 : ℚ) / 2, (1 : ℚ) / 2) = 1 / 2 := by
  unfold frac tInt; norm_num

end C16
