import KoalaVerif.Props.C01
import KoalaVerif.Model.Tables
import KoalaVerif.Lemmas.AngOrder
import Mathlib.Data.List.Basic
import Mathlib.Data.List.Induction

/-! # C02 — all adjacency tables agree with the edge list and the plaquette list -/

namespace C02
open Tab

/-! ### edge → plaquette table -/

theorem edgePlaq_append (ps : List (List Dart)) (p : List Dart) (d : Dart) :
    edgePlaq (ps ++ [p]) d = if d ∈ p then some ps.length else edgePlaq ps d := by
  unfold edgePlaq
  rw [List.zipIdx_append, List.foldl_append]
  simp

/-- whatever the fill loop leaves in a cell is a plaquette that really traverses that dart -/
theorem edgePlaq_sound (ps : List (List Dart)) (d : Dart) (n : Nat) (h : edgePlaq ps d = some n) :
    ∃ hn : n < ps.length, d ∈ ps[n] := by
  induction ps using List.reverseRecOn generalizing n with
  | nil => simp [edgePlaq] at h
  | append_singleton ps p ih =>
    rw [edgePlaq_append] at h
    by_cases hd : d ∈ p
    · rw [if_pos hd] at h
      have : n = ps.length := by injection h with h; exact h.symm
      subst this
      exact ⟨by simp, by simpa using hd⟩
    · rw [if_neg hd] at h
      obtain ⟨hn, hm⟩ := ih n h
      refine ⟨by simp; omega, ?_⟩
      rw [List.getElem_append_left hn]; exact hm

/-- a dart traversed by some plaquette never keeps the `INVALID` sentinel -/
theorem edgePlaq_complete (ps : List (List Dart)) (d : Dart) (h : ∃ p ∈ ps, d ∈ p) :
    edgePlaq ps d ≠ none := by
  induction ps using List.reverseRecOn with
  | nil => simp at h
  | append_singleton ps p ih =>
    rw [edgePlaq_append]
    by_cases hd : d ∈ p
    · simp [hd]
    · rw [if_neg hd]
      apply ih
      obtain ⟨q, hq, hdq⟩ := h
      rcases List.mem_append.mp hq with hq | hq
      · exact ⟨q, hq, hdq⟩
      · simp at hq; subst hq; exact absurd hdq hd

theorem edgePlaq_none_iff (ps : List (List Dart)) (d : Dart) :
    edgePlaq ps d = none ↔ ∀ p ∈ ps, d ∉ p := by
  constructor
  · intro h p hp hd; exact edgePlaq_complete ps d ⟨p, hp, hd⟩ h
  · intro h
    cases hc : edgePlaq ps d with
    | none => rfl
    | some n =>
      obtain ⟨hn, hm⟩ := edgePlaq_sound ps d n hc
      exact absurd hm (h _ (List.getElem_mem hn))

/-- C02.1: because no dart lies on two plaquettes (C01), the cell of dart `d` holds the index of **the**
    plaquette that traverses `d`: column 0 of row `e` is the plaquette traversing `e` forwards, column 1
    the one traversing it backwards, `INVALID` exactly when there is none. -/
theorem edgePlaq_spec (ps : List (List Dart)) (hdis : ps.Pairwise List.Disjoint) (d : Dart) (n : Nat)
    (hn : n < ps.length) (hd : d ∈ ps[n]) : edgePlaq ps d = some n := by
  cases hc : edgePlaq ps d with
  | none => exact absurd hc (edgePlaq_complete ps d ⟨_, List.getElem_mem hn, hd⟩)
  | some m =>
    obtain ⟨hm, hdm⟩ := edgePlaq_sound ps d m hc
    by_cases hmn : m = n
    · rw [hmn]
    · exfalso
      rw [List.pairwise_iff_getElem] at hdis
      rcases Nat.lt_or_gt_of_ne hmn with hlt | hlt
      · exact hdis m n hm hn hlt hdm hd
      · exact hdis n m hn hm hlt hd hdm

/-- specialised to the model's plaquettes of a loop-free lattice -/
theorem edge_table_correct (L : Lat) (hL : L.noSelfLoop = true) (d : Dart) (n : Nat)
    (hn : n < (C01.plaquetteWalks L).length) (hd : d ∈ (C01.plaquetteWalks L)[n]) :
    edgePlaq (C01.plaquetteWalks L) d = some n :=
  edgePlaq_spec _ (C01.plaquettes_dart_disjoint L hL).1 d n hn hd

/-! ### vertex → plaquette table -/

/-- C02.2: row `v` lists exactly the plaquettes containing `v` -/
theorem vertexPlaq_mem (L : Lat) (ps : List (List Dart)) (v n : Nat) :
    n ∈ vertexPlaq L ps v ↔ ∃ hn : n < ps.length, v ∈ walkVertices L ps[n] := by
  unfold vertexPlaq
  simp only [List.mem_map, List.mem_filter, decide_eq_true_eq]
  constructor
  · rintro ⟨⟨p, m⟩, ⟨hmem, hv⟩, rfl⟩
    rw [List.mem_zipIdx_iff_getElem?] at hmem
    obtain ⟨a, b⟩ := List.getElem?_eq_some_iff.mp hmem
    simp only at a b
    exact ⟨a, by rw [b]; exact hv⟩
  · rintro ⟨hn, hv⟩
    refine ⟨(ps[n], n), ⟨?_, hv⟩, rfl⟩
    rw [List.mem_zipIdx_iff_getElem?]
    simp [hn]

/-- … each of them once, in plaquette order -/
theorem vertexPlaq_sorted (L : Lat) (ps : List (List Dart)) (v : Nat) :
    (vertexPlaq L ps v).Pairwise (· < ·) := by
  unfold vertexPlaq
  have h : (ps.zipIdx.map (·.2)).Pairwise (· < ·) := by
    have : ps.zipIdx.map (·.2) = List.range' 0 ps.length := by
      simp [List.zipIdx_map_snd]
    rw [this]; exact List.pairwise_lt_range'
  exact (List.Pairwise.sublist ((List.filter_sublist).map _) h)

theorem vertexPlaq_nodup (L : Lat) (ps : List (List Dart)) (v : Nat) : (vertexPlaq L ps v).Nodup :=
  (vertexPlaq_sorted L ps v).imp (fun h => Nat.ne_of_lt h)

/-- **C02 (the vertex rows never overflow)**: a vertex lies on at most as many plaquettes as it has incident edges, so
    writing each plaquette into "the first free slot" of a row with one slot per incident edge always finds a slot.
    (Distinct plaquettes through `v` leave `v` along distinct darts, because plaquettes are pairwise dart-disjoint.) -/
theorem vertex_row_fits (L : Lat) (hL : L.noSelfLoop = true) (ps : List (List Dart)) (hdis : ps.Pairwise List.Disjoint)
    (hval : ∀ w ∈ ps, ∀ d ∈ w, d.1 < L.E) (v : Nat) :
    (vertexPlaq L ps v).length ≤ (rotAt L v).length := by
  classical
  have key : ∀ n, n ∈ vertexPlaq L ps v → ∃ d : Dart, (∃ hn : n < ps.length, d ∈ ps[n]) ∧ L.tail d = v := by
    intro n hn
    obtain ⟨hlt, hv⟩ := (vertexPlaq_mem L ps v n).mp hn
    unfold walkVertices at hv
    obtain ⟨d, hd, hdv⟩ := List.mem_map.mp hv
    exact ⟨d, ⟨hlt, hd⟩, hdv⟩
  choose! f hf using key
  let D : List Dart := (incident L v).map fun e => ((e, decide ((L.endsOf e).1 ≠ v)) : Dart)
  have hsub : ∀ n ∈ vertexPlaq L ps v, f n ∈ D := by
    intro n hn
    obtain ⟨⟨hlt, hd⟩, ht⟩ := hf n hn
    have hE : (f n).1 < L.E := hval _ (List.getElem_mem hlt) _ hd
    have hnl := noLoop_of_noSelfLoop L hL (f n).1 hE
    refine List.mem_map.mpr ⟨(f n).1, ?_, ?_⟩
    · rw [mem_incident]
      refine ⟨hE, ?_⟩
      unfold Lat.tail at ht
      split at ht
      · right; exact ht
      · left; exact ht
    · unfold Lat.tail at ht
      apply Prod.ext
      · rfl
      · simp only
        cases hb : (f n).2
        · rw [hb] at ht; simp only [Bool.false_eq_true, if_false] at ht
          simp [ht]
        · rw [hb] at ht; simp only [if_true] at ht
          simp only [decide_eq_true_eq]
          intro h1; exact hnl (h1.trans ht.symm)
  have hinj : ∀ n ∈ vertexPlaq L ps v, ∀ m ∈ vertexPlaq L ps v, f n = f m → n = m := by
    intro n hn m hm hfm
    obtain ⟨⟨hlt, hd⟩, _⟩ := hf n hn
    obtain ⟨⟨hlt', hd'⟩, _⟩ := hf m hm
    by_contra hne
    rw [List.pairwise_iff_getElem] at hdis
    rcases Nat.lt_or_gt_of_ne hne with h | h
    · exact (hdis n m hlt hlt' h) hd (hfm ▸ hd')
    · exact (hdis m n hlt' hlt h) hd' (hfm ▸ hd)
  have hnd : ((vertexPlaq L ps v).map f).Nodup := (List.nodup_map_iff_inj_on (vertexPlaq_nodup L ps v)).mpr hinj
  have hle : ((vertexPlaq L ps v).map f).length ≤ D.length := by
    apply List.Subperm.length_le
    apply hnd.subperm
    intro x hx
    obtain ⟨n, hn, rfl⟩ := List.mem_map.mp hx
    exact hsub n hn
  have hD : D.length = (rotAt L v).length := by
    simp only [D, List.length_map]
    exact (rotAt_perm L v).length_eq.symm
  rw [List.length_map] at hle
  omega

/-! ### plaquette → plaquette table -/

theorem rev_notMem_of_nodup (w : List Dart) (hnd : (w.map (·.1)).Nodup) (d : Dart) (hd : d ∈ w) :
    (d.1, !d.2) ∉ w := by
  intro hr
  have hne : d ≠ (d.1, !d.2) := by
    obtain ⟨e, b⟩ := d; cases b <;> simp
  have := List.inj_on_of_nodup_map hnd hd hr rfl
  exact hne this

/-- C02.3: for a plaquette `n` that uses no edge twice, entry `i` of its neighbour list is the plaquette
    on the other side of its `i`-th edge (`INVALID` if none) -/
theorem plaqNeighbours_spec (ps : List (List Dart)) (hdis : ps.Pairwise List.Disjoint) (n : Nat)
    (hn : n < ps.length) (hnd : ((ps[n]).map (·.1)).Nodup) :
    plaqNeighbours ps n = (ps[n]).map fun d => edgePlaq ps (d.1, !d.2) := by
  unfold plaqNeighbours
  have hget : ps.getD n [] = ps[n] := by simp [List.getD_eq_getElem?_getD, hn]
  rw [hget, List.map_eq_flatMap]
  apply List.flatMap_congr
  intro d hd
  have hself : edgePlaq ps d = some n := edgePlaq_spec ps hdis d n hn hd
  have hrev : edgePlaq ps (d.1, !d.2) ≠ some n := by
    intro h
    obtain ⟨_, hm⟩ := edgePlaq_sound ps _ n h
    exact rev_notMem_of_nodup _ hnd d hd hm
  obtain ⟨e, b⟩ := d
  cases b
  · simp only [Bool.not_false] at hrev ⊢
    simp [hself, hrev]
  · simp only [Bool.not_true] at hrev ⊢
    simp [hself, hrev]

/-! ### tables that depend on the edge list only -/

/-- one coordination number per vertex — also for isolated vertices with the highest indices -/
theorem coordination_length (L : Lat) : (coordination L).length = L.nV := by
  simp [coordination]

theorem coordination_get (L : Lat) (v : Nat) (hv : v < L.nV) :
    (coordination L)[v]'(by simpa [coordination] using hv)
      = (L.edges.filter fun e => e.1 == v).length + (L.edges.filter fun e => e.2 == v).length := by
  simp [coordination]

theorem length_filter_or_of_excl {α : Type} (p q : α → Bool) (l : List α) (h : ∀ x ∈ l, ¬ (p x = true ∧ q x = true)) :
    (l.filter fun x => p x || q x).length = (l.filter p).length + (l.filter q).length := by
  induction l with
  | nil => rfl
  | cons a t ih =>
    have iht := ih (fun x hx => h x (List.mem_cons_of_mem _ hx))
    have ha := h a List.mem_cons_self
    simp only [List.filter_cons]
    cases hp : p a <;> cases hq : q a <;> simp_all <;> omega

theorem range_map_endsOf (L : Lat) : (List.range L.E).map L.endsOf = L.edges := by
  apply List.ext_getElem
  · simp [Lat.E]
  · intro i h1 h2
    simp only [List.getElem_map, List.getElem_range]
    unfold Lat.endsOf
    exact getD_of_lt _ _ _ h2

/-- coordination number = length of the incident-edge row (the table and `bincount` agree), for every
    vertex of a loop-free lattice -/
theorem coordination_eq_row_length (L : Lat) (hL : L.noSelfLoop = true) (v : Nat) :
    (L.edges.filter fun e => e.1 == v).length + (L.edges.filter fun e => e.2 == v).length
      = (rotAt L v).length := by
  rw [(rotAt_perm L v).length_eq]
  unfold incident
  rw [length_filter_or_of_excl (fun e => (L.endsOf e).1 == v) (fun e => (L.endsOf e).2 == v)]
  · have e1 : ((List.range L.E).filter fun e => (L.endsOf e).1 == v).length
        = (((List.range L.E).map L.endsOf).filter fun e => e.1 == v).length := by
      rw [List.filter_map, List.length_map]; rfl
    have e2 : ((List.range L.E).filter fun e => (L.endsOf e).2 == v).length
        = (((List.range L.E).map L.endsOf).filter fun e => e.2 == v).length := by
      rw [List.filter_map, List.length_map]; rfl
    rw [e1, e2, range_map_endsOf]
  · intro e he ⟨h1, h2⟩
    have hnl := noLoop_of_noSelfLoop L hL e (List.mem_range.mp he)
    simp only [beq_iff_eq] at h1 h2
    exact hnl (h1.trans h2.symm)

/-- C02.4a: an edge's neighbours are exactly the other edges sharing a vertex with it -/
theorem edgeNeighbours_spec (L : Lat) (n m : Nat) :
    m ∈ edgeNeighbours L n ↔ m < L.E ∧ m ≠ n ∧
      ((L.endsOf m).1 = (L.endsOf n).1 ∨ (L.endsOf m).2 = (L.endsOf n).1 ∨
       (L.endsOf m).1 = (L.endsOf n).2 ∨ (L.endsOf m).2 = (L.endsOf n).2) := by
  unfold edgeNeighbours
  simp [List.mem_filter, List.mem_range, or_assoc]

/-- C02.4b: the adjacency matrix is symmetric … -/
theorem adjacency_symm (L : Lat) (a b : Nat) : adjacent L a b = adjacent L b a := by
  unfold adjacent
  congr 1; funext e
  rw [Bool.or_comm]

/-- … and `True` exactly at joined pairs -/
theorem adjacency_iff_joined (L : Lat) (a b : Nat) :
    adjacent L a b = true ↔ ∃ e ∈ L.edges, e = (a, b) ∨ e = (b, a) := by
  unfold adjacent
  simp only [List.any_eq_true, Bool.or_eq_true, Bool.and_eq_true, beq_iff_eq]
  constructor
  · rintro ⟨e, he, h⟩; exact ⟨e, he, by rcases h with ⟨h1, h2⟩ | ⟨h1, h2⟩ <;> [left; right] <;> exact Prod.ext h1 h2⟩
  · rintro ⟨e, he, h⟩; refine ⟨e, he, ?_⟩
    rcases h with rfl | rfl <;> simp

/-- the incident-edge list of the table is complete (every edge at `v`, nothing else, no repeats) -/
theorem vertex_row_complete (L : Lat) (v e : Nat) :
    e ∈ rotAt L v ↔ e < L.E ∧ ((L.endsOf e).1 = v ∨ (L.endsOf e).2 = v) := by
  rw [(rotAt_perm L v).mem_iff]; exact mem_incident L v e

theorem vertex_row_nodup (L : Lat) (v : Nat) : (rotAt L v).Nodup :=
  (rotAt_perm L v).nodup_iff.mpr (incident_nodup L v)

/-- **the incident-edge list is in clockwise cyclic order starting after 12 o'clock**: along the row the anticlockwise angle
    from the +y axis, taken in `[0, 2π)`, never increases — no earlier edge has a smaller angle than a later one (exact
    quadrant + cross-product comparison; ties are parallel edges).  Needs only that no incident edge has zero length. -/
theorem vertex_row_sorted (L : Lat) (v : Nat) (hnz : ∀ e ∈ incident L v, outVec L v e ≠ (0, 0)) :
    (rotAt L v).Pairwise fun a b => angLt (outVec L v a) (outVec L v b) = false :=
  AngOrder.rotAt_sorted L v hnz

/-! ### helpers agree with the tables -/

/-- `vertex_neighbours` lists the same edges as the table row (in index order) and pairs each with its far end -/
theorem vertexNeighbours_edges (L : Lat) (v : Nat) : (vertexNeighbours L v).map (·.2) = incident L v := by
  unfold vertexNeighbours incident
  simp [List.map_map, Function.comp_def]

theorem vertexNeighbours_far_end (L : Lat) (v : Nat) (hL : L.noSelfLoop = true) (x : Nat × Nat)
    (hx : x ∈ vertexNeighbours L v) :
    x.2 < L.E ∧ (((L.endsOf x.2).1 = v ∧ x.1 = (L.endsOf x.2).2) ∨ ((L.endsOf x.2).2 = v ∧ x.1 = (L.endsOf x.2).1)) := by
  unfold vertexNeighbours at hx
  simp only [List.mem_map, List.mem_filter, List.mem_range, Bool.or_eq_true, beq_iff_eq] at hx
  obtain ⟨e, ⟨he, hv⟩, rfl⟩ := hx
  refine ⟨he, ?_⟩
  have hnl := noLoop_of_noSelfLoop L hL e he
  rcases hv with h1 | h2
  · left; refine ⟨h1, ?_⟩
    have : (L.endsOf e).2 ≠ v := fun h => hnl (h1.trans h.symm)
    simp [this]
  · right; refine ⟨h2, ?_⟩
    simp [h2]

theorem insertAsc_perm (key : Nat → Int × Int) (e : Nat) (l : List Nat) :
    (insertAsc key e l).Perm (e :: l) := by
  induction l with
  | nil => exact List.Perm.refl _
  | cons x xs ih =>
    unfold insertAsc
    split
    · exact List.Perm.refl _
    · exact (List.Perm.cons x ih).trans (List.Perm.swap e x xs)

/-- `clockwise_edges_about(v)` returns the same edges as the table row, each once -/
theorem clockwiseAbout_perm (L : Lat) (v : Nat) : (clockwiseAbout L v).Perm (rotAt L v) := by
  have gen : ∀ (l acc : List Nat), (l.foldl (fun acc e => insertAsc (outVec L v) e acc) acc).Perm (l ++ acc) := by
    intro l
    induction l with
    | nil => intro acc; exact List.Perm.refl _
    | cons e l ih =>
      intro acc
      simp only [List.foldl_cons, List.cons_append]
      refine (ih (insertAsc (outVec L v) e acc)).trans ?_
      refine (List.Perm.append_left l (insertAsc_perm _ e acc)).trans ?_
      exact List.perm_middle
  unfold clockwiseAbout
  refine (gen _ []).trans ?_
  simp only [List.append_nil]
  exact (List.reverse_perm _).trans (rotAt_perm L v).symm

/-! ### the lazily computed attributes: every access order observes the same values -/

open Cache

variable {V : Type}

/-- every populated slot holds the pure value -/
structure Good (pv : Pure V) (s : State V) : Prop where
  plaq : ∀ x, s.plaq = some x → x = pv.plaq
  nplaq : ∀ x, s.nplaq = some x → x = pv.nplaq
  eadj : ∀ x, s.eadj = some x → x = pv.eadj
  vadj : ∀ x, s.vadj = some x → x = pv.vadj
  privE : s.plaq ≠ none → s.privE = some pv.eadj
  privV : s.plaq ≠ none → s.privV = some pv.vadj

theorem good_init (pv : Pure V) : Good pv ({} : State V) := by
  constructor <;> simp

theorem good_touch (pv : Pure V) (s : State V) (h : Good pv s) :
    Good pv (touchPlaq pv s) ∧ (touchPlaq pv s).plaq = some pv.plaq := by
  unfold touchPlaq
  cases hp : s.plaq with
  | some x =>
    simp only
    exact ⟨h, by rw [hp, h.plaq x hp]⟩
  | none =>
    simp only
    refine ⟨?_, trivial⟩
    constructor <;> simp
    · exact h.nplaq
    · exact h.eadj
    · exact h.vadj

/-- one access from a good state: the state stays good and the observed value is the pure one -/
theorem step_good (pv : Pure V) (s : State V) (h : Good pv s) (a : Attr) :
    Good pv (step pv s a).1 ∧ (step pv s a).2 = some (pureOf pv a) := by
  obtain ⟨ht, htp⟩ := good_touch pv s h
  cases a with
  | plaquettes => exact ⟨ht, htp⟩
  | nPlaquettes =>
    unfold step
    cases hc : s.nplaq with
    | some x => simp only; exact ⟨h, by rw [h.nplaq x hc]; rfl⟩
    | none =>
      simp only
      refine ⟨?_, rfl⟩
      constructor <;> simp
      · exact ht.plaq
      · exact ht.eadj
      · exact ht.vadj
      · exact ht.privE
      · exact ht.privV
  | edgeAdj =>
    unfold step
    cases hc : s.eadj with
    | some x => simp only; exact ⟨h, by rw [h.eadj x hc]; rfl⟩
    | none =>
      simp only
      have hp : (touchPlaq pv s).plaq ≠ none := by rw [htp]; simp
      refine ⟨?_, ht.privE hp⟩
      constructor <;> simp
      · exact ht.plaq
      · exact ht.nplaq
      · intro x hx; rw [ht.privE hp] at hx; injection hx with hx; exact hx.symm
      · exact ht.vadj
      · exact ht.privE
      · exact ht.privV
  | vertexAdj =>
    unfold step
    cases hc : s.vadj with
    | some x => simp only; exact ⟨h, by rw [h.vadj x hc]; rfl⟩
    | none =>
      simp only
      have hp : (touchPlaq pv s).plaq ≠ none := by rw [htp]; simp
      refine ⟨?_, ht.privV hp⟩
      constructor <;> simp
      · exact ht.plaq
      · exact ht.nplaq
      · exact ht.eadj
      · intro x hx; rw [ht.privV hp] at hx; injection hx with hx; exact hx.symm
      · exact ht.privE
      · exact ht.privV

def accessesOf : List Op → List Attr
  | [] => []
  | .access a :: r => a :: accessesOf r
  | .pickle :: r => accessesOf r

theorem run_good (pv : Pure V) (ops : List Op) (s : State V) (h : Good pv s) (out : List (Option V)) :
    Good pv (run pv s ops out).1 ∧
    (run pv s ops out).2 = out.reverse ++ (accessesOf ops).map (fun a => some (pureOf pv a)) := by
  induction ops generalizing s out with
  | nil => simp [run, accessesOf, h]
  | cons op rest ih =>
    cases op with
    | access a =>
      obtain ⟨hg, hv⟩ := step_good pv s h a
      have := ih (step pv s a).1 hg ((step pv s a).2 :: out)
      simp only [run, accessesOf, List.map_cons]
      refine ⟨this.1, ?_⟩
      rw [this.2, hv]; simp
    | pickle =>
      have := ih (pickleRoundTrip s) (good_init pv) out
      simpa [run, accessesOf] using this

/-- C02.6: **history independence** — for every sequence of attribute accesses and pickle round trips
    from a fresh lattice, in any order and of any length, every value observed is the pure function of
    (positions, edges, crossings) for that attribute. -/
theorem cache_history_independent (pv : Pure V) (ops : List Op) :
    (run pv {} ops []).2 = (accessesOf ops).map (fun a => some (pureOf pv a)) := by
  have := (run_good pv ops {} (good_init pv) []).2
  simpa using this

/-! ### several lattice objects alive at once -/

def accessesOfMany : List (Nat × Op) → List (Nat × Attr)
  | [] => []
  | (i, .access a) :: r => (i, a) :: accessesOfMany r
  | (_, .pickle) :: r => accessesOfMany r

theorem runMany_good (pvs : Nat → Pure V) (ops : List (Nat × Op)) (h : Heap V) (hg : ∀ i, Good (pvs i) (h i))
    (out : List (Option V)) :
    (∀ i, Good (pvs i) ((runMany pvs h ops out).1 i)) ∧
    (runMany pvs h ops out).2 = out.reverse ++ (accessesOfMany ops).map (fun x => some (pureOf (pvs x.1) x.2)) := by
  induction ops generalizing h out with
  | nil => simp [runMany, accessesOfMany, hg]
  | cons op rest ih =>
    obtain ⟨i, o⟩ := op
    cases o with
    | access a =>
      obtain ⟨hs, hv⟩ := step_good (pvs i) (h i) (hg i) a
      have hg' : ∀ j, Good (pvs j) (Heap.set h i (step (pvs i) (h i) a).1 j) := by
        intro j; unfold Heap.set; split
        · next hj => subst hj; exact hs
        · exact hg j
      have := ih _ hg' ((step (pvs i) (h i) a).2 :: out)
      simp only [runMany, accessesOfMany, List.map_cons]
      refine ⟨this.1, ?_⟩
      rw [this.2, hv]; simp
    | pickle =>
      have hg' : ∀ j, Good (pvs j) (Heap.set h i (pickleRoundTrip (h i)) j) := by
        intro j; unfold Heap.set; split
        · next hj => subst hj; exact good_init (pvs j)
        · exact hg j
      have := ih _ hg' out
      simpa [runMany, accessesOfMany] using this

/-- C02.6b: **several lattices alive at once** — for every interleaving of attribute accesses and pickle round trips on any
    number of lattice objects, every value observed is the pure function of the lattice it was asked of: what was computed
    for one lattice is never handed out for another. -/
theorem interleaving_independent (pvs : Nat → Pure V) (ops : List (Nat × Op)) :
    (runMany pvs (fun _ => {}) ops []).2 = (accessesOfMany ops).map (fun x => some (pureOf (pvs x.1) x.2)) := by
  have := (runMany_good pvs ops (fun _ => {}) (fun i => good_init (pvs i)) []).2
  simpa using this

/-- frame: an operation on lattice `i` leaves the slots of every other lattice as they were -/
theorem heap_set_frame (h : Heap V) (i j : Nat) (s : State V) (hij : j ≠ i) : Heap.set h i s j = h j := by
  unfold Heap.set; simp [hij]

example : (runMany (fun i => (⟨10 * i, 10 * i + 1, 10 * i + 2, 10 * i + 3⟩ : Pure Nat)) (fun _ => {})
    [(1, .access .plaquettes), (2, .access .plaquettes), (1, .access .vertexAdj), (2, .pickle), (2, .access .edgeAdj), (1, .access .edgeAdj)] []).2
    = [some 10, some 20, some 13, some 22, some 12] := by decide

/-! ### non-vacuity -/
example : edgePlaq (C01.plaquetteWalks C01.exL) (1, false) = some 0 := by decide +kernel
example : edgePlaq (C01.plaquetteWalks C01.exL) (1, true) = none := by decide +kernel
example : vertexPlaq C01.exL (C01.plaquetteWalks C01.exL) 2 = [0] := by decide +kernel
example : coordination C01.exL = [2, 2, 3, 1] := by decide +kernel

end C02
