import KoalaVerif.Model.Dual
import KoalaVerif.Props.C02
import Mathlib.Data.List.Basic
import Mathlib.Tactic.Ring
import Mathlib.Tactic.Linarith

/-! # C13 — dual and vertex-truncated lattices have the combinatorics that define them

Exact arithmetic (integers on a common scale).  The geometric clause "one plaquette per original vertex with as many
sides as its coordination number" needs planarity of the straight-line dual and is decided by running C01's model on
the output (correspondence), not proved. -/

namespace C13
open Dual

/-! ### rounding and the half-cell condition -/

/-- `np.round` returns `k` for every argument within less than one half of the integer `k` -/
theorem roundHalfEven_spec (n D k f : Int) (hD : 0 < D) (hn : n = k * D + f) (hf : 2 * f < D ∧ -D < 2 * f) :
    roundHalfEven n D = k := by
  unfold roundHalfEven
  simp only
  by_cases hf0 : 0 ≤ f
  · have hq : n / D = k := by
      rw [hn, Int.add_comm, Int.add_mul_ediv_right _ _ (ne_of_gt hD), Int.ediv_eq_zero_of_lt hf0 (by omega)]; simp
    have hr : n % D = f := by
      rw [hn, Int.add_comm, Int.add_mul_emod_self_right, Int.emod_eq_of_lt hf0 (by omega)]
    rw [hq, hr, if_pos hf.1]
  · have hq : n / D = k - 1 := by
      have : n = (k - 1) * D + (f + D) := by rw [hn]; ring
      rw [this, Int.add_comm, Int.add_mul_ediv_right _ _ (ne_of_gt hD), Int.ediv_eq_zero_of_lt (by omega) (by omega)]; simp
    have hr : n % D = f + D := by
      have : n = (k - 1) * D + (f + D) := by rw [hn]; ring
      rw [this, Int.add_comm, Int.add_mul_emod_self_right, Int.emod_eq_of_lt (by omega) (by omega)]
    rw [hq, hr, if_neg (by omega), if_pos (by omega)]
    ring

/-- **C13 dual edge vectors**: if the true displacement between two neighbouring centres `a/D`, `b/D` is less than
    half a cell in a coordinate, then `(b mod 1) − (a mod 1) + round((a mod 1) − (b mod 1))` — the stored dual edge vector
    for the edge `[a, b]` with crossing `round(v[a] − v[b])` — is exactly the true displacement `b − a` -/
theorem round_mod_lemma (a b D : Int) (hD : 0 < D) (hhalf : 2 * (b - a) < D ∧ -D < 2 * (b - a)) :
    b % D - a % D + dualCross1 a b D * D = b - a := by
  unfold dualCross1
  have ha := Int.emod_add_mul_ediv a D
  have hb := Int.emod_add_mul_ediv b D
  -- a % D − b % D = (b/D − a/D)·D + (a − b)
  have hn : a % D - b % D = (b / D - a / D) * D + (a - b) := by
    have e1 : a % D = a - D * (a / D) := by linarith
    have e2 : b % D = b - D * (b / D) := by linarith
    rw [e1, e2]; ring
  rw [roundHalfEven_spec (a % D - b % D) D (b / D - a / D) (a - b) hD hn ⟨by omega, by omega⟩]
  have e1 : a % D = a - D * (a / D) := by linarith
  have e2 : b % D = b - D * (b / D) := by linarith
  rw [e1, e2]; ring

/-- the dual vertices are the centres modulo one cell: in `[0, 1)` -/
theorem dual_vertex_in_cell (c D : Int) (hD : 0 < D) : 0 ≤ c % D ∧ c % D < D :=
  ⟨Int.emod_nonneg c (ne_of_gt hD), Int.emod_lt_of_pos c hD⟩

/-! ### the dual's edge list -/

/-- **one dual edge per edge with a plaquette on both sides**, joining the plaquette traversing it forwards to the one
    traversing it backwards (C02's edge table) … -/
theorem mem_dualEdges (nE : Nat) (ps : List (List Dart)) (e a b : Nat) :
    (e, a, b) ∈ dualEdges nE ps ↔ e < nE ∧ Tab.edgePlaq ps (e, false) = some a ∧ Tab.edgePlaq ps (e, true) = some b := by
  unfold dualEdges
  simp only [List.mem_filterMap, List.mem_range]
  constructor
  · rintro ⟨e', he', h⟩
    cases h1 : Tab.edgePlaq ps (e', false) <;> cases h2 : Tab.edgePlaq ps (e', true) <;> simp [h1, h2] at h
    obtain ⟨rfl, rfl, rfl⟩ := h
    exact ⟨he', h1, h2⟩
  · rintro ⟨he, h1, h2⟩
    exact ⟨e, he, by simp [h1, h2]⟩

theorem filterMap_fst_sublist (f : Nat → Option (Nat × Nat × Nat)) (hf : ∀ e x, f e = some x → x.1 = e) (l : List Nat) :
    ((l.filterMap f).map (·.1)).Sublist l := by
  induction l with
  | nil => simp
  | cons a t ih =>
    rw [List.filterMap_cons]
    cases h : f a with
    | none => exact ih.cons a
    | some x =>
      simp only [List.map_cons]
      rw [hf a x h]
      exact ih.cons₂ a

/-- … listed in edge order -/
theorem dualEdges_sorted (nE : Nat) (ps : List (List Dart)) : ((dualEdges nE ps).map (·.1)).Pairwise (· < ·) := by
  unfold dualEdges
  refine List.Pairwise.sublist (filterMap_fst_sublist _ ?_ _) List.pairwise_lt_range
  intro e x h
  cases h1 : Tab.edgePlaq ps (e, false) <;> cases h2 : Tab.edgePlaq ps (e, true) <;> simp [h1, h2] at h
  rw [← h]

/-- both ends of a dual edge are plaquettes of the lattice, and they are different when the plaquettes use no edge twice -/
theorem dualEdges_ends (nE : Nat) (ps : List (List Dart)) (hnd : ∀ w ∈ ps, (w.map (·.1)).Nodup) (e a b : Nat)
    (h : (e, a, b) ∈ dualEdges nE ps) : a < ps.length ∧ b < ps.length ∧ a ≠ b := by
  obtain ⟨_, h1, h2⟩ := (mem_dualEdges nE ps e a b).mp h
  obtain ⟨ha, hma⟩ := C02.edgePlaq_sound ps _ a h1
  obtain ⟨hb, hmb⟩ := C02.edgePlaq_sound ps _ b h2
  refine ⟨ha, hb, ?_⟩
  rintro rfl
  exact C02.rev_notMem_of_nodup _ (hnd _ (List.getElem_mem ha)) (e, false) hma (by simpa using hmb)

/-! ### truncation: corners -/

theorem fdiv_fmod (x m : Int) (hm : 0 < m) : Int.fmod x m + Int.fdiv x m * m = x := by
  rw [Int.fmod_eq_emod_of_nonneg _ (le_of_lt hm), Int.fdiv_eq_ediv_of_nonneg _ (le_of_lt hm)]
  have := Int.emod_add_mul_ediv x m
  linarith

/-- **all new corners inside `[0, 1)`**, and corner + shift is the unwrapped point `pos[n] + vec/3` (scale `3·scale`) -/
theorem corner_spec (L : Lat) (hS : 0 < L.scale) (n : Nat) (c : Corner) (hc : c ∈ cornersOf L n) :
    0 ≤ c.pos.1 ∧ c.pos.1 < 3 * L.scale ∧ 0 ≤ c.pos.2 ∧ c.pos.2 < 3 * L.scale ∧
    ∃ out : Int × Int, out = (if c.nFirst then L.evec c.edge else (-(L.evec c.edge).1, -(L.evec c.edge).2)) ∧
      c.pos.1 + c.shift.1 * (3 * L.scale) = 3 * (L.posOf n).1 + out.1 ∧
      c.pos.2 + c.shift.2 * (3 * L.scale) = 3 * (L.posOf n).2 + out.2 := by
  unfold cornersOf at hc
  obtain ⟨e, _, rfl⟩ := List.mem_map.mp hc
  have h3 : 0 < 3 * L.scale := by omega
  simp only
  refine ⟨?_, ?_, ?_, ?_, _, rfl, fdiv_fmod _ _ h3, fdiv_fmod _ _ h3⟩
  all_goals (rw [Int.fmod_eq_emod_of_nonneg _ (le_of_lt h3)])
  · exact Int.emod_nonneg _ (ne_of_gt h3)
  · exact Int.emod_lt_of_pos _ h3
  · exact Int.emod_nonneg _ (ne_of_gt h3)
  · exact Int.emod_lt_of_pos _ h3

/-- one corner per incident edge, in the rotation order of the vertex table -/
theorem cornersOf_edges (L : Lat) (n : Nat) : (cornersOf L n).map (·.edge) = rotAt L n := by
  unfold cornersOf
  rw [List.map_map]
  conv_rhs => rw [← List.map_id (rotAt L n)]
  apply List.map_congr_left
  intro e _
  rfl

/-- **wrap compensation**: the stored vector of the polygon edge from corner `c` to corner `c'`
    (`pos' − pos + crossing`, crossing `= shift' − shift`) is the difference of the unwrapped corners -/
theorem polygon_edge_vector (S3 p p' s s' U U' : Int) (h : p + s * S3 = U) (h' : p' + s' * S3 = U') :
    p' - p + (s' - s) * S3 = U' - U := by
  rw [← h, ← h']; ring

/-- an original edge `a → b` whose first end is truncated keeps two thirds of its vector, with the crossing corrected by
    the corner's shift: `pos[b] − corner + (c − shift) = v − v/3` (all on the scale `3·scale`, `v = 3·evec`) -/
theorem truncated_first_end_vector (S3 pa pb c corner shift v : Int)
    (hv : 3 * pb - 3 * pa + c * S3 = 3 * v) (hc : corner + shift * S3 = 3 * pa + v) :
    3 * pb - corner + (c - shift) * S3 = 2 * v := by
  have : corner = 3 * pa + v - shift * S3 := by linarith
  rw [this]; linarith

theorem truncated_second_end_vector (S3 pa pb c corner shift v : Int)
    (hv : 3 * pb - 3 * pa + c * S3 = 3 * v) (hc : corner + shift * S3 = 3 * pb - v) :
    corner - 3 * pa + (c + shift) * S3 = 2 * v := by
  have : corner = 3 * pb - v - shift * S3 := by linarith
  rw [this]; linarith

/-! ### truncation: counts -/

/-- number of new vertices standing for old vertex `n`: its degree if it is truncated, one otherwise -/
def weight (L : Lat) (chosen : Nat → Bool) (n : Nat) : Nat := if truncated L chosen n then (rotAt L n).length else 1
def polyEdges (L : Lat) (chosen : Nat → Bool) (n : Nat) : Nat := if truncated L chosen n then (rotAt L n).length else 0

theorem stepVertex_counts (L : Lat) (chosen : Nat → Bool) (acc : Acc) (n : Nat) :
    (stepVertex L chosen acc n).total = acc.total + weight L chosen n ∧
    (stepVertex L chosen acc n).pos.length = acc.pos.length + weight L chosen n ∧
    (stepVertex L chosen acc n).added.length = acc.added.length + polyEdges L chosen n := by
  unfold stepVertex weight polyEdges
  split
  · simp [cornersOf]
  · simp

theorem fold_counts (L : Lat) (chosen : Nat → Bool) (l : List Nat) (acc : Acc) :
    (l.foldl (stepVertex L chosen) acc).total = acc.total + (l.map (weight L chosen)).sum ∧
    (l.foldl (stepVertex L chosen) acc).pos.length = acc.pos.length + (l.map (weight L chosen)).sum ∧
    (l.foldl (stepVertex L chosen) acc).added.length = acc.added.length + (l.map (polyEdges L chosen)).sum := by
  induction l generalizing acc with
  | nil => simp
  | cons n l ih =>
    simp only [List.foldl_cons, List.map_cons, List.sum_cons]
    obtain ⟨h1, h2, h3⟩ := ih (stepVertex L chosen acc n)
    obtain ⟨s1, s2, s3⟩ := stepVertex_counts L chosen acc n
    exact ⟨by omega, by omega, by omega⟩

/-- **C13 truncation counts**: the result has one vertex per non-truncated vertex and `d` vertices per truncated vertex of
    degree `d > 2` (`d − 1` more), one position per vertex, all `E` original edges first (they keep their indices) followed
    by `d` polygon edges per truncated vertex, and as many crossings as edges -/
theorem truncate_counts (L : Lat) (chosen : Nat → Bool) :
    (truncate L chosen).nV = ((List.range L.nV).map (weight L chosen)).sum ∧
    (truncate L chosen).pos.length = (truncate L chosen).nV ∧
    (truncate L chosen).E = L.E + ((List.range L.nV).map (polyEdges L chosen)).sum ∧
    (truncate L chosen).cross.length = (truncate L chosen).E := by
  have h := fold_counts L chosen (List.range L.nV) { pos := [], added := [], ends := [], dcross := [], total := 0 }
  simp only [List.length_nil, Nat.zero_add] at h
  obtain ⟨h1, h2, h3⟩ := h
  unfold truncate Lat.E
  simp only [List.length_append, List.length_map, List.length_range]
  refine ⟨h1, ?_, ?_, ?_⟩
  · rw [h2, h1]
  · rw [h3]
  · trivial

/-- a truncated vertex has degree above two (vertices of degree ≤ 2 are never replaced) -/
theorem truncated_degree (L : Lat) (chosen : Nat → Bool) (n : Nat) (h : truncated L chosen n = true) :
    chosen n = true ∧ 2 < (rotAt L n).length := by
  unfold truncated at h
  simpa using h

/-! ### non-vacuity -/
example : roundHalfEven 7 10 = 1 ∧ roundHalfEven 5 10 = 0 ∧ roundHalfEven 15 10 = 2 ∧ roundHalfEven (-6) 10 = -1 := by decide
example : dualCross1 1 9 10 = -1 ∧ (9 % 10 - 1 % 10 + dualCross1 1 9 10 * 10 : Int) = -2 := by decide

end C13
