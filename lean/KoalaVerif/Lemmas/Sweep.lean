import Mathlib.Dynamics.PeriodicPts.Lemmas
import Mathlib.Data.List.Iterate
import KoalaVerif.Model.Lattice

/-! The sweep of `_find_all_plaquettes` partitions the darts into orbits. -/

open Function

variable {α : Type} [DecidableEq α]

noncomputable def orbitList (f : α → α) (x : α) : List α := List.iterate f x (minimalPeriod f x)

section
variable [Finite α] {f : α → α} (hf : Injective f)
include hf

theorem mem_orbitList {x y : α} : y ∈ orbitList f x ↔ ∃ k, f^[k] x = y := by
  unfold orbitList
  rw [List.mem_iterate]
  constructor
  · rintro ⟨k, _, rfl⟩; exact ⟨k, rfl⟩
  · rintro ⟨k, rfl⟩
    have hp : 0 < minimalPeriod f x := minimalPeriod_pos_of_mem_periodicPts (hf.mem_periodicPts x)
    exact ⟨k % minimalPeriod f x, Nat.mod_lt _ hp, (iterate_mod_minimalPeriod_eq).symm⟩

theorem self_mem_orbitList (x : α) : x ∈ orbitList f x := (mem_orbitList hf).mpr ⟨0, rfl⟩

theorem orbit_symm {x y : α} (h : y ∈ orbitList f x) : x ∈ orbitList f y := by
  obtain ⟨k, rfl⟩ := (mem_orbitList hf).mp h
  rw [mem_orbitList hf]
  have hp : 0 < minimalPeriod f x := minimalPeriod_pos_of_mem_periodicPts (hf.mem_periodicPts x)
  -- choose j with k + j a multiple of the period
  refine ⟨minimalPeriod f x * (k + 1) - k, ?_⟩
  rw [← iterate_add_apply]
  have hle : k ≤ minimalPeriod f x * (k + 1) :=
    Nat.le_trans (Nat.le_succ k) (Nat.le_mul_of_pos_left _ hp)
  rw [Nat.sub_add_cancel hle]
  exact (isPeriodicPt_minimalPeriod f x).mul_const (k+1) |>.eq

theorem orbit_trans {x y z : α} (h1 : y ∈ orbitList f x) (h2 : z ∈ orbitList f y) : z ∈ orbitList f x := by
  obtain ⟨k, rfl⟩ := (mem_orbitList hf).mp h1
  obtain ⟨j, rfl⟩ := (mem_orbitList hf).mp h2
  exact (mem_orbitList hf).mpr ⟨j + k, by rw [iterate_add_apply]⟩

/-- `vis` is a union of whole orbits -/
def Closed (f : α → α) (vis : List α) : Prop := ∀ a ∈ vis, ∀ b ∈ orbitList f a, b ∈ vis

theorem sweep_spec (order vis : List α) (hc : Closed f vis) :
    (∀ w ∈ sweep (orbitList f) order vis, ∃ d ∈ order, d ∉ vis ∧ w = orbitList f d) ∧
    (sweep (orbitList f) order vis).Pairwise List.Disjoint ∧
    (∀ w ∈ sweep (orbitList f) order vis, List.Disjoint w vis) ∧
    (∀ d ∈ order, d ∈ vis ∨ ∃ w ∈ sweep (orbitList f) order vis, d ∈ w) := by
  induction order generalizing vis with
  | nil => simp [sweep]
  | cons d rest ih =>
    by_cases hd : d ∈ vis
    · simp only [sweep, hd, if_true]
      obtain ⟨h1, h2, h3, h4⟩ := ih vis hc
      refine ⟨?_, h2, h3, ?_⟩
      · intro w hw; obtain ⟨d', hd', hn, rfl⟩ := h1 w hw
        exact ⟨d', List.mem_cons_of_mem _ hd', hn, rfl⟩
      · intro d' hd'
        rcases List.mem_cons.mp hd' with rfl | hr
        · exact Or.inl hd
        · exact h4 d' hr
    · simp only [sweep, hd, if_false]
      have hc' : Closed f (orbitList f d ++ vis) := by
        intro a ha b hb
        rcases List.mem_append.mp ha with h | h
        · exact List.mem_append_left _ (orbit_trans hf h hb)
        · exact List.mem_append_right _ (hc a h b hb)
      have hdisj : List.Disjoint (orbitList f d) vis := by
        intro y hy hyv
        exact hd (hc y hyv d (orbit_symm hf hy))
      obtain ⟨h1, h2, h3, h4⟩ := ih (orbitList f d ++ vis) hc'
      refine ⟨?_, ?_, ?_, ?_⟩
      · intro w hw
        rcases List.mem_cons.mp hw with rfl | hw
        · exact ⟨d, List.mem_cons_self, hd, rfl⟩
        · obtain ⟨d', hd', hn, rfl⟩ := h1 w hw
          exact ⟨d', List.mem_cons_of_mem _ hd', fun h => hn (List.mem_append_right _ h), rfl⟩
      · rw [List.pairwise_cons]
        refine ⟨?_, h2⟩
        intro w hw y hy hyw
        exact h3 w hw hyw (List.mem_append_left _ hy)
      · intro w hw
        rcases List.mem_cons.mp hw with rfl | hw
        · exact hdisj
        · intro y hy hyv; exact h3 w hw hy (List.mem_append_right _ hyv)
      · intro d' hd'
        rcases List.mem_cons.mp hd' with rfl | hr
        · exact Or.inr ⟨_, List.mem_cons_self, self_mem_orbitList hf _⟩
        · rcases h4 d' hr with h | ⟨w, hw, hdw⟩
          · rcases List.mem_append.mp h with h | h
            · exact Or.inr ⟨_, List.mem_cons_self, h⟩
            · exact Or.inl h
          · exact Or.inr ⟨w, List.mem_cons_of_mem _ hw, hdw⟩

/-- the headline: starting with nothing marked, the traced walks are whole orbits, pairwise disjoint,
    and every dart of the sweep order lies on exactly one of them. -/
theorem sweep_partition (order : List α) :
    (∀ w ∈ sweep (orbitList f) order [], ∃ d ∈ order, w = orbitList f d) ∧
    (sweep (orbitList f) order []).Pairwise List.Disjoint ∧
    (∀ d ∈ order, ∃ w ∈ sweep (orbitList f) order [], d ∈ w) := by
  obtain ⟨h1, h2, _, h4⟩ := sweep_spec hf order [] (by intro a ha; simp at ha)
  refine ⟨?_, h2, ?_⟩
  · intro w hw; obtain ⟨d, hd, _, rfl⟩ := h1 w hw; exact ⟨d, hd, rfl⟩
  · intro d hd; rcases h4 d hd with h | h
    · simp at h
    · exact h
end

