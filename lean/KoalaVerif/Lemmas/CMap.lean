import KoalaVerif.Model.Lattice

/-! Combinatorial-map lemmas for the step of `_find_plaquette` (core Lean only). -/

theorem getD_of_lt {α} (l : List α) (i : Nat) (d : α) (h : i < l.length) : l.getD i d = l[i] := by
  simp [List.getD_eq_getElem?_getD, h]

structure WF (L : Lat) (R : Rot) : Prop where
  noLoop : ∀ e, e < L.E → (L.endsOf e).1 ≠ (L.endsOf e).2
  nodup : ∀ v, (R v).Nodup
  mem_iff : ∀ v e, e ∈ R v ↔ e < L.E ∧ ((L.endsOf e).1 = v ∨ (L.endsOf e).2 = v)

theorem head_mem {L : Lat} {R : Rot} (h : WF L R) {d : Dart} (hd : d.1 < L.E) : d.1 ∈ R (L.head d) := by
  rw [h.mem_iff]; refine ⟨hd, ?_⟩
  unfold Lat.head; cases d.2 <;> simp

theorem nextD_edge_mem {L : Lat} {R : Rot} (h : WF L R) {d : Dart} (hd : d.1 < L.E) :
    (nextD L R d).1 ∈ R (L.head d) := by
  have hm := head_mem h hd
  have hpos : 0 < (R (L.head d)).length := List.length_pos_of_mem hm
  simp only [nextD]
  have hlt : ((R (L.head d)).idxOf d.1 + 1) % (R (L.head d)).length < (R (L.head d)).length :=
    Nat.mod_lt _ hpos
  rw [getD_of_lt _ _ _ hlt]
  exact List.getElem_mem _

theorem nextD_valid {L : Lat} {R : Rot} (h : WF L R) {d : Dart} (hd : d.1 < L.E) : (nextD L R d).1 < L.E :=
  ((h.mem_iff _ _).mp (nextD_edge_mem h hd)).1

theorem tail_nextD {L : Lat} {R : Rot} (h : WF L R) {d : Dart} (hd : d.1 < L.E) :
    L.tail (nextD L R d) = L.head d := by
  have hm := (h.mem_iff _ _).mp (nextD_edge_mem h hd)
  have hnl := h.noLoop _ hm.1
  generalize hv : L.head d = v at hm
  have hn : nextD L R d = ((nextD L R d).1, decide ((L.endsOf (nextD L R d).1).1 ≠ v)) := by
    rw [← hv]; rfl
  rw [hn]
  generalize (nextD L R d).1 = e at *
  unfold Lat.tail
  rcases hm.2 with h1 | h2
  · simp [h1]
  · have : (L.endsOf e).1 ≠ v := by rw [← h2]; exact hnl
    simp [this, h2]

theorem nextD_inj {L : Lat} {R : Rot} (h : WF L R) {d1 d2 : Dart} (h1 : d1.1 < L.E) (h2 : d2.1 < L.E)
    (heq : nextD L R d1 = nextD L R d2) : d1 = d2 := by
  -- same pivot vertex
  have hv : L.head d1 = L.head d2 := by
    rw [← tail_nextD h h1, ← tail_nextD h h2, heq]
  have hm1 := head_mem h h1
  have hm2 := head_mem h h2
  rw [← hv] at hm2
  generalize hl : R (L.head d1) = l at *
  have hnd : l.Nodup := hl ▸ h.nodup (L.head d1)
  have hpos : 0 < l.length := List.length_pos_of_mem hm1
  have i1 := List.idxOf_lt_length_of_mem hm1
  have i2 := List.idxOf_lt_length_of_mem hm2
  -- same successor entry ⇒ same index ⇒ same edge
  have he : (nextD L R d1).1 = (nextD L R d2).1 := by rw [heq]
  simp only [nextD] at he
  rw [← hv, hl] at he
  have hlt1 : (l.idxOf d1.1 + 1) % l.length < l.length := Nat.mod_lt _ hpos
  have hlt2 : (l.idxOf d2.1 + 1) % l.length < l.length := Nat.mod_lt _ hpos
  rw [getD_of_lt _ _ _ hlt1, getD_of_lt _ _ _ hlt2] at he
  have hidx := (List.getElem_inj hnd).mp he
  have hidx' : l.idxOf d1.1 = l.idxOf d2.1 := by
    by_cases c1 : l.idxOf d1.1 + 1 = l.length <;> by_cases c2 : l.idxOf d2.1 + 1 = l.length
    · omega
    · rw [c1, Nat.mod_self, Nat.mod_eq_of_lt (by omega)] at hidx; omega
    · rw [c2, Nat.mod_self, Nat.mod_eq_of_lt (by omega)] at hidx; omega
    · rw [Nat.mod_eq_of_lt (by omega), Nat.mod_eq_of_lt (by omega)] at hidx; omega
  have hedge : d1.1 = d2.1 := by
    have e1 : l[l.idxOf d1.1]'i1 = d1.1 := List.getElem_idxOf i1
    have e2 : l[l.idxOf d2.1]'i2 = d2.1 := List.getElem_idxOf i2
    rw [← e1, ← e2]; congr 1
  -- same edge, same head, no self-loop ⇒ same direction
  have hnl := h.noLoop _ h1
  obtain ⟨e1, b1⟩ := d1
  obtain ⟨e2, b2⟩ := d2
  simp only at hedge; subst hedge
  unfold Lat.head at hv
  cases b1 <;> cases b2 <;> simp_all

