import KoalaVerif.Lemmas.CMap

/-! The geometric rotation system `rotAt` (the model of `_sorted_vertex_adjacent_edges`) is
    well-formed on every lattice without self-loops: each list is a duplicate-free enumeration of the
    edges incident to the vertex.  (Core Lean only.) -/

theorem insertDesc_perm (key : Nat → Int × Int) (e : Nat) (l : List Nat) :
    (insertDesc key e l).Perm (e :: l) := by
  induction l with
  | nil => exact List.Perm.refl _
  | cons x xs ih =>
    unfold insertDesc
    split
    · exact List.Perm.refl _
    · exact (List.Perm.cons x ih).trans (List.Perm.swap e x xs)

theorem foldl_insertDesc_perm (key : Nat → Int × Int) (l acc : List Nat) :
    (l.foldl (fun acc e => insertDesc key e acc) acc).Perm (l ++ acc) := by
  induction l generalizing acc with
  | nil => exact List.Perm.refl _
  | cons e l ih =>
    simp only [List.foldl_cons, List.cons_append]
    refine (ih (insertDesc key e acc)).trans ?_
    refine (List.Perm.append_left l (insertDesc_perm key e acc)).trans ?_
    exact List.perm_middle

theorem rotAt_perm (L : Lat) (v : Nat) : (rotAt L v).Perm (incident L v) := by
  unfold rotAt
  have := foldl_insertDesc_perm (outVec L v) (incident L v) []
  simpa using this

theorem incident_nodup (L : Lat) (v : Nat) : (incident L v).Nodup := by
  unfold incident
  exact List.Sublist.nodup List.filter_sublist List.nodup_range

theorem mem_incident (L : Lat) (v e : Nat) :
    e ∈ incident L v ↔ e < L.E ∧ ((L.endsOf e).1 = v ∨ (L.endsOf e).2 = v) := by
  unfold incident
  simp [List.mem_filter, List.mem_range]

theorem noLoop_of_noSelfLoop (L : Lat) (h : L.noSelfLoop = true) :
    ∀ e, e < L.E → (L.endsOf e).1 ≠ (L.endsOf e).2 := by
  intro e he
  unfold Lat.noSelfLoop at h
  rw [List.all_eq_true] at h
  have hmem : L.edges[e]'he ∈ L.edges := List.getElem_mem _
  have := h _ hmem
  unfold Lat.endsOf
  rw [getD_of_lt _ _ _ he]
  simpa using this

/-- C01.1 - without self-loops the geometric rotation system is well-formed. -/
theorem rotAt_wf (L : Lat) (h : L.noSelfLoop = true) : WF L (rotAt L) where
  noLoop := noLoop_of_noSelfLoop L h
  nodup := fun v => (rotAt_perm L v).nodup_iff.mpr (incident_nodup L v)
  mem_iff := fun v e => by rw [(rotAt_perm L v).mem_iff]; exact mem_incident L v e
