import KoalaVerif.Lemmas.CMap

/-! The geometric rotation system `rotAt` (the model of `_sorted_vertex_adjacent_edges`) is
    well-formed on every lattice without self-loops: each list is a duplicate-free enumeration of the
    edges incident to the vertex.  (Core Lean only.) -/

theorem insertDesc_perm (key : Nat → Int × Int) (e : Nat) (l : List Nat) :
    (insertDesc key e l).Perm (e :: l) := by
  induction l with
  | nil => exact List.Perm.refl _
  | cons x xs ih =>
    unfold insertDesc
    split
    · exact List.Perm.refl _
    · exact (List.Perm.cons x ih).trans (List.Perm.swap e x xs)

theorem foldl_insertDesc_perm (key : Nat → Int × Int) (l acc : List Nat) :
    (l.foldl (fun acc e => insertDesc key e acc) acc).Perm (l ++ acc) := by
  induction l generalizing acc with
  | nil => exact List.Perm.refl _
  | cons e l ih =>
    simp only [List.foldl_cons, List.cons_append]
    refine (ih (insertDesc key e acc)).trans ?_
    refine (List.Perm.append_left l (insertDesc_perm key e acc)).trans ?_
    exact List.perm_middle

theorem rotAt_perm (L : Lat) (v : Nat) : (rotAt L v).Perm (incident L v) := by
  unfold rotAt
  have := foldl_insertDesc_perm (outVec L v) (incident L v) []
  simpa using this

theorem incident_nodup (L : Lat) (v : Nat) : (incident L v).Nodup := by
  unfold incident
  exact List.Sublist.nodup List.filter_sublist List.nodup_range

theorem mem_incident (L : Lat) (v e : Nat) :
    e ∈ incident L v ↔ e < L.E ∧ ((L.endsOf e).1 = v ∨ (L.endsOf e).2 = v) := by
  unfold incident
  simp [List.mem_filter, List.mem_range]

theorem noLoop_of_noSelfLoop (L : Lat) (h : L.noSelfLoop = true) :
    ∀ e, e < L.E → (L.endsOf e).1 ≠ (L.endsOf e).2 := by
  intro e he
  unfold Lat.noSelfLoop at h
  rw [List.all_eq_true] at h
  have hmem : L.edges[e]'he ∈ L.edges := List.getElem_mem _
  have := h _ hmem
  unfold Lat.endsOf
  rw [getD_of_lt _ _ _ he]
  simpa using this

/-- C01.1 - without self-loops the geometric rotation system is well-formed. -/
theorem rotAt_wf (L : Lat) (h : L.noSelfLoop = true) : WF L (rotAt L) where
  noLoop := noLoop_of_noSelfLoop L h
  nodup := fun v => (rotAt_perm L v).nodup_iff.mpr (incident_nodup L v)
  mem_iff := fun v e => by rw [(rotAt_perm L v).mem_iff]; exact mem_incident L v e

/-- the driver evaluates the rotation system through a table computed once; on lattices whose edges
    are in range (the driver rejects all others) that is the same function as `rotAt`. -/
theorem rotOfTable_eq (L : Lat) (hr : ∀ e ∈ L.edges, e.1 < L.nV ∧ e.2 < L.nV) :
    rotOfTable (rotTable L) = rotAt L := by
  funext v
  unfold rotOfTable rotTable
  by_cases hv : v < L.nV
  · simp [Array.getD, hv]
  · have hsz : ¬ v < ((Array.range L.nV).map (rotAt L)).size := by simpa using hv
    simp only [Array.getD, hsz, dif_neg, not_false_eq_true]
    have hinc : incident L v = [] := by
      unfold incident
      rw [List.filter_eq_nil_iff]
      intro e he
      have he' : e < L.E := List.mem_range.mp he
      have hmem : L.edges[e]'he' ∈ L.edges := List.getElem_mem _
      have := hr _ hmem
      have hends : L.endsOf e = L.edges[e]'he' := by unfold Lat.endsOf; exact getD_of_lt _ _ _ he'
      rw [hends]
      have h1 : (L.edges[e]'he').1 ≠ v := by omega
      have h2 : (L.edges[e]'he').2 ≠ v := by omega
      simp [h1, h2]
    unfold rotAt
    rw [hinc]; rfl
