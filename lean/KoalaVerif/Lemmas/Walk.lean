import KoalaVerif.Lemmas.Glue
import KoalaVerif.Lemmas.Rot
import KoalaVerif.Lemmas.SweepGen
import Mathlib.Data.Fintype.Card
import Mathlib.Data.Fintype.Prod
import Mathlib.Data.Fintype.BigOperators

/-! The traced walks of a well-formed rotation system are the orbits of `nextD`:
    periodicity, membership, and the `OrbitLike` structure needed by the sweep lemma. -/

open Function

section
variable (L : Lat) (R : Rot) (h : WF L R)

def vdartEquiv : {d : Dart // d.1 < L.E} ≃ Fin L.E × Bool where
  toFun d := (⟨d.1.1, d.2⟩, d.1.2)
  invFun p := ⟨(p.1.1, p.2), p.1.2⟩
  left_inv := by intro d; rfl
  right_inv := by intro p; rfl

instance : Fintype {d : Dart // d.1 < L.E} := Fintype.ofEquiv _ (vdartEquiv L).symm

theorem card_vdart : Fintype.card {d : Dart // d.1 < L.E} = 2 * L.E := by
  rw [Fintype.card_congr (vdartEquiv L)]
  simp [Fintype.card_prod, Nat.mul_comm]

include h

/-- the step restricted to valid darts -/
def gstep : {d : Dart // d.1 < L.E} → {d : Dart // d.1 < L.E} :=
  restr (fun d : Dart => d.1 < L.E) (nextD L R) (fun _ hd => nextD_valid h hd)

theorem gstep_inj : Injective (gstep L R h) := by
  intro a b hab
  have := congrArg Subtype.val hab
  exact Subtype.ext (nextD_inj h a.2 b.2 this)

theorem gstep_iter_val (x : {d : Dart // d.1 < L.E}) (k : Nat) :
    ((gstep L R h)^[k] x).val = (nextD L R)^[k] x.val := by
  induction k with
  | zero => rfl
  | succ k ih =>
    rw [iterate_succ_apply', iterate_succ_apply', ← ih]; rfl

/-- iterates of a valid dart stay valid -/
theorem iter_valid {d : Dart} (hd : d.1 < L.E) (k : Nat) : ((nextD L R)^[k] d).1 < L.E := by
  have := gstep_iter_val L R h ⟨d, hd⟩ k
  simp only at this
  rw [← this]; exact ((gstep L R h)^[k] ⟨d, hd⟩).2

/-- everything the later proofs need to know about the walk traced from a valid dart -/
structure WalkData (d : Dart) where
  p : Nat
  pos : 0 < p
  le : p ≤ 2 * L.E
  per : (nextD L R)^[p] d = d
  inj : ∀ i j, i < p → j < p → (nextD L R)^[i] d = (nextD L R)^[j] d → i = j
  traced : trace (nextD L R) d (2 * L.E + 1) = some (List.iterate (nextD L R) d p)

noncomputable def walkData {d : Dart} (hd : d.1 < L.E) : WalkData L R d := by
  let g := gstep L R h
  let x : {d : Dart // d.1 < L.E} := ⟨d, hd⟩
  have hinj := gstep_inj L R h
  have hpos : 0 < minimalPeriod g x := minimalPeriod_pos_of_mem_periodicPts (hinj.mem_periodicPts x)
  have hle : minimalPeriod g x ≤ 2 * L.E := by
    have := @minimalPeriod_le_card _ g x _
    rwa [card_vdart] at this
  refine ⟨minimalPeriod g x, hpos, hle, ?_, ?_, ?_⟩
  · have := congrArg Subtype.val (iterate_minimalPeriod (f := g) (x := x))
    rwa [gstep_iter_val] at this
  · intro i j hi hj hij
    apply iterate_injOn_lt_minimalPeriod hinj hi hj
    apply Subtype.ext
    rw [gstep_iter_val, gstep_iter_val]; exact hij
  · rw [trace_on_lattice L R h d hd (2 * L.E + 1) (by
      show minimalPeriod g x ≤ 2 * L.E + 1
      omega)]
    congr 1
    apply List.ext_getElem
    · simp only [List.length_map, List.length_iterate]; rfl
    · intro i h1 h2
      simp only [List.getElem_map, List.getElem_iterate]
      exact gstep_iter_val L R h x i

theorem walkFrom_eq {d : Dart} (hd : d.1 < L.E) :
    walkFrom L R d = List.iterate (nextD L R) d (walkData L R h hd).p := by
  unfold walkFrom
  rw [(walkData L R h hd).traced]; rfl

theorem iter_mod {d : Dart} (W : WalkData L R d) (k : Nat) :
    (nextD L R)^[k % W.p] d = (nextD L R)^[k] d :=
  IsPeriodicPt.iterate_mod_apply (f := nextD L R) (n := W.p) (x := d) W.per k

theorem mem_walkFrom {d : Dart} (hd : d.1 < L.E) (y : Dart) :
    y ∈ walkFrom L R d ↔ ∃ k, (nextD L R)^[k] d = y := by
  rw [walkFrom_eq L R h hd, List.mem_iterate]
  constructor
  · rintro ⟨k, _, rfl⟩; exact ⟨k, rfl⟩
  · rintro ⟨k, rfl⟩
    exact ⟨k % (walkData L R h hd).p, Nat.mod_lt _ (walkData L R h hd).pos,
      (iter_mod L R h (walkData L R h hd) k).symm⟩

theorem walkFrom_orbitLike : OrbitLike (fun d : Dart => d.1 < L.E) (walkFrom L R) where
  self_mem := fun x hx => (mem_walkFrom L R h hx x).mpr ⟨0, rfl⟩
  symm := by
    intro x y hx hy
    obtain ⟨k, rfl⟩ := (mem_walkFrom L R h hx _).mp hy
    have hvy := iter_valid L R h hx k
    refine ⟨hvy, ?_⟩
    rw [mem_walkFrom L R h hvy]
    let W := walkData L R h hx
    refine ⟨W.p * (k + 1) - k, ?_⟩
    rw [← iterate_add_apply]
    have hle : k ≤ W.p * (k + 1) :=
      Nat.le_trans (Nat.le_succ k) (Nat.le_mul_of_pos_left _ W.pos)
    rw [Nat.sub_add_cancel hle]
    have : IsPeriodicPt (nextD L R) W.p x := W.per
    exact (this.mul_const (k + 1)).eq
  trans := by
    intro x y z hx hy hz
    obtain ⟨k, rfl⟩ := (mem_walkFrom L R h hx _).mp hy
    have hvy := iter_valid L R h hx k
    obtain ⟨j, rfl⟩ := (mem_walkFrom L R h hvy _).mp hz
    exact (mem_walkFrom L R h hx _).mpr ⟨j + k, by rw [iterate_add_apply]⟩

end
