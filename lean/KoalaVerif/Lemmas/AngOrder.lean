import KoalaVerif.Lemmas.Rot
import Mathlib.Tactic.Linarith
import Mathlib.Tactic.Ring

/-! The angular comparison `angLt` of the model (quadrant + cross product: the exact counterpart of comparing
    `arctan2(-x, y) % 2π`) is a strict weak order on non-zero vectors; insertion keeps a list in descending angular order;
    hence the rotation list `rotAt L v` is sorted: clockwise, starting after 12 o'clock. -/

namespace AngOrder
open Lat

theorem quad_spec (v : Int × Int) (hv : v ≠ (0, 0)) :
    (quad v = 0 ∧ 0 < v.2 ∧ v.1 ≤ 0) ∨ (quad v = 1 ∧ v.2 ≤ 0 ∧ v.1 < 0) ∨ (quad v = 2 ∧ v.2 < 0 ∧ 0 ≤ v.1) ∨ (quad v = 3 ∧ 0 ≤ v.2 ∧ 0 < v.1) := by
  obtain ⟨x, y⟩ := v
  have hxy : x ≠ 0 ∨ y ≠ 0 := by
    by_contra h
    simp only [not_or, not_not] at h
    exact hv (by rw [h.1, h.2])
  unfold quad
  simp only
  by_cases h0 : y > 0 ∧ -x ≥ 0
  · left; rw [if_pos h0]; exact ⟨rfl, h0.1, by omega⟩
  · rw [if_neg h0]
    by_cases h1 : y ≤ 0 ∧ -x > 0
    · right; left; rw [if_pos h1]; exact ⟨rfl, h1.1, by omega⟩
    · rw [if_neg h1]
      by_cases h2 : y < 0 ∧ -x ≤ 0
      · right; right; left; rw [if_pos h2]; exact ⟨rfl, h2.1, by omega⟩
      · rw [if_neg h2]
        by_cases h3 : y ≥ 0 ∧ -x < 0
        · right; right; right; rw [if_pos h3]; exact ⟨rfl, h3.1, by omega⟩
        · exfalso; omega

theorem quad0_pos (v : Int × Int) (hv : v ≠ (0, 0)) (h : quad v = 0) : 0 < v.2 := by
  rcases quad_spec v hv with ⟨q, s⟩ | ⟨q, s⟩ | ⟨q, s⟩ | ⟨q, s⟩ <;> first | exact s.1 | omega
theorem quad1_neg (v : Int × Int) (hv : v ≠ (0, 0)) (h : quad v = 1) : v.1 < 0 := by
  rcases quad_spec v hv with ⟨q, s⟩ | ⟨q, s⟩ | ⟨q, s⟩ | ⟨q, s⟩ <;> first | exact s.2 | omega
theorem quad2_neg (v : Int × Int) (hv : v ≠ (0, 0)) (h : quad v = 2) : v.2 < 0 := by
  rcases quad_spec v hv with ⟨q, s⟩ | ⟨q, s⟩ | ⟨q, s⟩ | ⟨q, s⟩ <;> first | exact s.1 | omega
theorem quad3_pos (v : Int × Int) (hv : v ≠ (0, 0)) (h : quad v = 3) : 0 < v.1 := by
  rcases quad_spec v hv with ⟨q, s⟩ | ⟨q, s⟩ | ⟨q, s⟩ | ⟨q, s⟩ <;> first | exact s.2 | omega

theorem angLt_eq (v w : Int × Int) :
    angLt v w = if quad v ≠ quad w then decide (quad v < quad w) else decide (v.1 * w.2 - v.2 * w.1 > 0) := by
  unfold angLt
  simp only [bne_iff_ne, ne_eq, ite_not]
  by_cases h : quad v = quad w
  · simp only [h, if_true, not_true_eq_false, if_false]
    congr 1
    apply propext
    constructor <;> intro hh <;> nlinarith
  · simp [h]

/-- the angular order is asymmetric … -/
theorem angLt_asymm (v w : Int × Int) (h : angLt v w = true) : angLt w v = false := by
  rw [angLt_eq] at h ⊢
  by_cases hq : quad v = quad w
  · simp only [hq, ne_eq, not_true_eq_false, if_false, decide_eq_true_eq] at h
    simp only [hq, ne_eq, not_true_eq_false, if_false, decide_eq_false_iff_not]
    intro h2; nlinarith
  · have hq' : quad w ≠ quad v := fun e => hq e.symm
    simp only [ne_eq, hq, not_false_eq_true, if_true, decide_eq_true_eq] at h
    simp only [ne_eq, hq', not_false_eq_true, if_true, decide_eq_false_iff_not]
    omega

/-- … and negatively transitive on non-zero vectors (a strict weak order: it compares the angle in `[0, 2π)`) -/
theorem angLt_negTrans (x y z : Int × Int) (hx : x ≠ (0, 0)) (hy : y ≠ (0, 0)) (hz : z ≠ (0, 0)) (h : angLt x z = true) :
    angLt x y = true ∨ angLt y z = true := by
  rw [angLt_eq] at h
  rw [angLt_eq, angLt_eq]
  by_cases hxz : quad x = quad z
  · simp only [hxz, ne_eq, not_true_eq_false, if_false, decide_eq_true_eq] at h
    by_cases hyz : quad y = quad z
    · -- all three in one quadrant: the 2D identity cross(x,z)·y = cross(x,y)·z + cross(y,z)·x on a strictly signed coordinate
      simp only [hxz, hyz, ne_eq, not_true_eq_false, if_false, decide_eq_true_eq]
      by_contra hcon
      simp only [not_or, not_lt] at hcon
      obtain ⟨c1, c2⟩ := hcon
      have id1 : (x.1 * z.2 - x.2 * z.1) * y.1 = (x.1 * y.2 - x.2 * y.1) * z.1 + (y.1 * z.2 - y.2 * z.1) * x.1 := by ring
      have id2 : (x.1 * z.2 - x.2 * z.1) * y.2 = (x.1 * y.2 - x.2 * y.1) * z.2 + (y.1 * z.2 - y.2 * z.1) * x.2 := by ring
      have hxq : quad x = quad y := hxz.trans hyz.symm
      rcases quad_spec x hx with ⟨qx, sx⟩ | ⟨qx, sx⟩ | ⟨qx, sx⟩ | ⟨qx, sx⟩
      · have sy := quad0_pos y hy (by omega)
        have sz := quad0_pos z hz (by omega)
        nlinarith [mul_nonneg (sub_nonneg.mpr c1) (le_of_lt sz), mul_nonneg (sub_nonneg.mpr c2) (le_of_lt sx.1), mul_pos h sy]
      · have sy := quad1_neg y hy (by omega)
        have sz := quad1_neg z hz (by omega)
        nlinarith [mul_nonneg (sub_nonneg.mpr c1) (le_of_lt (neg_pos.mpr sz)), mul_nonneg (sub_nonneg.mpr c2) (le_of_lt (neg_pos.mpr sx.2)), mul_pos h (neg_pos.mpr sy)]
      · have sy := quad2_neg y hy (by omega)
        have sz := quad2_neg z hz (by omega)
        nlinarith [mul_nonneg (sub_nonneg.mpr c1) (le_of_lt (neg_pos.mpr sz)), mul_nonneg (sub_nonneg.mpr c2) (le_of_lt (neg_pos.mpr sx.1)), mul_pos h (neg_pos.mpr sy)]
      · have sy := quad3_pos y hy (by omega)
        have sz := quad3_pos z hz (by omega)
        nlinarith [mul_nonneg (sub_nonneg.mpr c1) (le_of_lt sz), mul_nonneg (sub_nonneg.mpr c2) (le_of_lt sx.2), mul_pos h sy]
    · have hxy : quad x ≠ quad y := fun e => hyz (e.symm.trans hxz)
      simp only [ne_eq, hxy, hyz, not_false_eq_true, if_true, decide_eq_true_eq]
      rw [hxz]; omega
  · simp only [ne_eq, hxz, not_false_eq_true, if_true, decide_eq_true_eq] at h
    by_cases hxy : quad x = quad y
    · right
      have hyz : quad y ≠ quad z := fun e => hxz (hxy.trans e)
      simp only [ne_eq, hyz, not_false_eq_true, if_true, decide_eq_true_eq]
      omega
    · by_cases hlt : quad x < quad y
      · left; simp only [ne_eq, hxy, not_false_eq_true, if_true, decide_eq_true_eq]; exact hlt
      · right
        have hyz : quad y ≠ quad z := by omega
        simp only [ne_eq, hyz, not_false_eq_true, if_true, decide_eq_true_eq]
        omega

/-- the list is in descending angular order (what `argsort(-angle)` returns) -/
def DescSorted (key : Nat → Int × Int) (l : List Nat) : Prop := l.Pairwise fun a b => angLt (key a) (key b) = false

theorem insertDesc_filter_neg (key : Nat → Int × Int) (p : Nat → Bool) (e : Nat) (l : List Nat) (hp : p e = false) :
    (insertDesc key e l).filter p = l.filter p := by
  induction l with
  | nil => simp [insertDesc, hp]
  | cons x xs ih =>
    unfold insertDesc
    split
    · simp [List.filter_cons, hp]
    · simp only [List.filter_cons, ih]

theorem insertDesc_mem (key : Nat → Int × Int) (e : Nat) (l : List Nat) (y : Nat) : y ∈ insertDesc key e l ↔ y = e ∨ y ∈ l := by
  induction l with
  | nil => simp [insertDesc]
  | cons x xs ih =>
    unfold insertDesc
    split
    · simp
    · simp only [List.mem_cons, ih]; tauto

/-- inserting into a sorted list keeps it sorted -/
theorem insertDesc_sorted (key : Nat → Int × Int) (e : Nat) (l : List Nat) (hnz : ∀ x, x = e ∨ x ∈ l → key x ≠ (0, 0))
    (hs : DescSorted key l) : DescSorted key (insertDesc key e l) := by
  induction l with
  | nil => simp [insertDesc, DescSorted]
  | cons x xs ih =>
    unfold insertDesc
    have hs' := List.pairwise_cons.mp hs
    split
    · rename_i hlt
      -- e goes first: every later element is below x or tied with it, hence not above e
      refine List.pairwise_cons.mpr ⟨?_, hs⟩
      intro y hy
      rcases List.mem_cons.mp hy with rfl | hy
      · exact angLt_asymm _ _ hlt
      · by_contra hcon
        have hcon : angLt (key e) (key y) = true := by simpa using hcon
        -- x < e < y  ⇒  x < y, contradicting sortedness
        rcases angLt_negTrans (key x) (key y) (key e) (hnz x (Or.inr (by simp))) (hnz y (Or.inr (List.mem_cons_of_mem _ hy)))
          (hnz e (Or.inl rfl)) hlt with h1 | h1
        · rw [hs'.1 y hy] at h1; cases h1
        · rw [angLt_asymm _ _ hcon] at h1; cases h1
    · rename_i hnlt
      refine List.pairwise_cons.mpr ⟨?_, ih (fun y hy => hnz y (by rcases hy with h | h; exact Or.inl h; exact Or.inr (List.mem_cons_of_mem _ h))) hs'.2⟩
      intro y hy
      rcases (insertDesc_mem key e xs y).mp hy with rfl | hy
      · simpa using hnlt
      · exact hs'.1 y hy


theorem foldl_insertDesc_sorted (key : Nat → Int × Int) (l acc : List Nat)
    (hnz : ∀ x, x ∈ l ∨ x ∈ acc → key x ≠ (0, 0)) (hs : DescSorted key acc) :
    DescSorted key (l.foldl (fun acc e => insertDesc key e acc) acc) := by
  induction l generalizing acc with
  | nil => exact hs
  | cons e l ih =>
    simp only [List.foldl_cons]
    apply ih
    · intro x hx
      rcases hx with h | h
      · exact hnz x (Or.inl (List.mem_cons_of_mem _ h))
      · rcases (insertDesc_mem key e acc x).mp h with h | h
        · exact hnz x (Or.inl (by simp [h]))
        · exact hnz x (Or.inr h)
    · exact insertDesc_sorted key e acc (fun x hx => hnz x (by rcases hx with h | h; exact Or.inl (by simp [h]); exact Or.inr h)) hs

/-- the incident-edge list of a vertex is in descending order of the anticlockwise angle from the +y axis taken in `[0, 2π)`:
    clockwise, starting after 12 o'clock (no incident edge of zero length) -/
theorem rotAt_sorted (L : Lat) (v : Nat) (hnz : ∀ e ∈ incident L v, outVec L v e ≠ (0, 0)) : DescSorted (outVec L v) (rotAt L v) := by
  unfold rotAt
  exact foldl_insertDesc_sorted (outVec L v) (incident L v) [] (fun x hx => by
    rcases hx with h | h
    · exact hnz x h
    · cases h) List.Pairwise.nil

end AngOrder
