import Mathlib.Dynamics.PeriodicPts.Lemmas
import Mathlib.Data.List.Iterate
import KoalaVerif.Model.Lattice

/-! The tracer loop on an injective map of a finite type returns the orbit, listed once. -/

open Function

variable {α : Type} [DecidableEq α]

theorem iterate_ne_of_lt_minimalPeriod {f : α → α} {x : α} {k : ℕ}
    (hk0 : 0 < k) (hk : k < minimalPeriod f x) : f^[k] x ≠ x := by
  intro h
  have := IsPeriodicPt.minimalPeriod_le hk0 h
  omega

theorem iterate_injOn_lt_minimalPeriod {f : α → α} (hf : Injective f) {x : α} {i j : ℕ}
    (hi : i < minimalPeriod f x) (hj : j < minimalPeriod f x) (h : f^[i] x = f^[j] x) : i = j := by
  wlog hij : i ≤ j generalizing i j
  · exact (this hj hi h.symm (by omega)).symm
  by_contra hne
  have hlt : i < j := by omega
  have : f^[i] (f^[j - i] x) = f^[i] x := by
    rw [← iterate_add_apply, Nat.add_sub_cancel' hij, h]
  have h2 := (hf.iterate i) this
  exact iterate_ne_of_lt_minimalPeriod (by omega) (by omega) h2

theorem traceLoop_spec (f : α → α) (hf : Injective f) (x : α) (hper : 0 < minimalPeriod f x) :
    ∀ (k fuel : ℕ), k < minimalPeriod f x → minimalPeriod f x - k ≤ fuel →
      traceLoop f x fuel (f^[k] x) ((List.iterate f x (k+1)).reverse)
        = some (List.iterate f x (minimalPeriod f x)) := by
  intro k fuel
  induction fuel generalizing k with
  | zero => intro hk hf'; omega
  | succ fuel ih =>
    intro hk hfuel
    unfold traceLoop
    simp only
    have hnext : f (f^[k] x) = f^[k+1] x := by rw [iterate_succ_apply']
    rw [hnext]
    by_cases hlast : k + 1 = minimalPeriod f x
    · have : f^[k+1] x = x := by rw [hlast]; exact iterate_minimalPeriod
      rw [if_pos this, List.reverse_reverse, hlast]
    · have hk1 : k + 1 < minimalPeriod f x := by omega
      have hne : f^[k+1] x ≠ x := iterate_ne_of_lt_minimalPeriod (by omega) hk1
      have hnotmem : f^[k+1] x ∉ (List.iterate f x (k+1)).reverse := by
        intro hmem
        rw [List.mem_reverse, List.mem_iterate] at hmem
        obtain ⟨j, hj, hjeq⟩ := hmem
        have := iterate_injOn_lt_minimalPeriod hf (by omega : j < minimalPeriod f x) hk1 hjeq.symm
        omega
      simp only [hne, hnotmem, if_false]
      have := ih (k+1) hk1 (by omega)
      have hsplit : List.iterate f x (k+1+1) = List.iterate f x (k+1) ++ [f^[k+1] x] := by
        rw [List.iterate_add f x (k+1) 1]; rfl
      rw [hsplit, List.reverse_append] at this
      simpa using this

theorem trace_spec [Finite α] (f : α → α) (hf : Injective f) (x : α) (fuel : ℕ)
    (hfuel : minimalPeriod f x ≤ fuel) :
    trace f x fuel = some (List.iterate f x (minimalPeriod f x)) := by
  have hper : 0 < minimalPeriod f x := minimalPeriod_pos_of_mem_periodicPts (hf.mem_periodicPts x)
  have := traceLoop_spec f hf x hper 0 fuel hper (by omega)
  simpa [trace] using this

