import KoalaVerif.Model.Lattice
import Batteries.Data.List.Basic

/-! The sweep of `_find_all_plaquettes`, for an abstract tracer `tr` whose images behave like the
    classes of an equivalence relation on the elements satisfying `P` (core Lean only). -/

variable {α : Type} [DecidableEq α]

structure OrbitLike (P : α → Prop) (tr : α → List α) : Prop where
  self_mem : ∀ x, P x → x ∈ tr x
  symm : ∀ x y, P x → y ∈ tr x → P y ∧ x ∈ tr y
  trans : ∀ x y z, P x → y ∈ tr x → z ∈ tr y → z ∈ tr x

/-- `vis` is a union of whole classes -/
def ClosedUnder (P : α → Prop) (tr : α → List α) (vis : List α) : Prop :=
  ∀ a ∈ vis, P a ∧ ∀ b ∈ tr a, b ∈ vis

theorem sweep_spec_gen {P : α → Prop} {tr : α → List α} (h : OrbitLike P tr)
    (order vis : List α) (ho : ∀ d ∈ order, P d) (hc : ClosedUnder P tr vis) :
    (∀ w ∈ sweep tr order vis, ∃ d ∈ order, d ∉ vis ∧ w = tr d) ∧
    (sweep tr order vis).Pairwise List.Disjoint ∧
    (∀ w ∈ sweep tr order vis, List.Disjoint w vis) ∧
    (∀ d ∈ order, d ∈ vis ∨ ∃ w ∈ sweep tr order vis, d ∈ w) := by
  induction order generalizing vis with
  | nil => simp [sweep]
  | cons d rest ih =>
    have hPd : P d := ho d List.mem_cons_self
    have ho' : ∀ d ∈ rest, P d := fun x hx => ho x (List.mem_cons_of_mem _ hx)
    by_cases hd : d ∈ vis
    · simp only [sweep, hd, if_true]
      obtain ⟨h1, h2, h3, h4⟩ := ih vis ho' hc
      refine ⟨?_, h2, h3, ?_⟩
      · intro w hw; obtain ⟨d', hd', hn, rfl⟩ := h1 w hw
        exact ⟨d', List.mem_cons_of_mem _ hd', hn, rfl⟩
      · intro d' hd'
        rcases List.mem_cons.mp hd' with rfl | hr
        · exact Or.inl hd
        · exact h4 d' hr
    · simp only [sweep, hd, if_false]
      have hc' : ClosedUnder P tr (tr d ++ vis) := by
        intro a ha
        rcases List.mem_append.mp ha with hh | hh
        · refine ⟨(h.symm d a hPd hh).1, ?_⟩
          intro b hb
          exact List.mem_append_left _ (h.trans d a b hPd hh hb)
        · refine ⟨(hc a hh).1, ?_⟩
          intro b hb
          exact List.mem_append_right _ ((hc a hh).2 b hb)
      have hdisj : List.Disjoint (tr d) vis := by
        intro y hy hyv
        exact hd ((hc y hyv).2 d (h.symm d y hPd hy).2)
      obtain ⟨h1, h2, h3, h4⟩ := ih (tr d ++ vis) ho' hc'
      refine ⟨?_, ?_, ?_, ?_⟩
      · intro w hw
        rcases List.mem_cons.mp hw with rfl | hw
        · exact ⟨d, List.mem_cons_self, hd, rfl⟩
        · obtain ⟨d', hd', hn, rfl⟩ := h1 w hw
          exact ⟨d', List.mem_cons_of_mem _ hd', fun hh => hn (List.mem_append_right _ hh), rfl⟩
      · rw [List.pairwise_cons]
        refine ⟨?_, h2⟩
        intro w hw y hy hyw
        exact h3 w hw hyw (List.mem_append_left _ hy)
      · intro w hw
        rcases List.mem_cons.mp hw with rfl | hw
        · exact hdisj
        · intro y hy hyv; exact h3 w hw hy (List.mem_append_right _ hyv)
      · intro d' hd'
        rcases List.mem_cons.mp hd' with rfl | hr
        · exact Or.inr ⟨_, List.mem_cons_self, h.self_mem _ hPd⟩
        · rcases h4 d' hr with hh | ⟨w, hw, hdw⟩
          · rcases List.mem_append.mp hh with hh | hh
            · exact Or.inr ⟨_, List.mem_cons_self, hh⟩
            · exact Or.inl hh
          · exact Or.inr ⟨w, List.mem_cons_of_mem _ hw, hdw⟩

/-- Starting with nothing marked: every traced walk is the class of some element of the order,
    the walks are pairwise disjoint, and every element of the order lies on one of them. -/
theorem sweep_partition_gen {P : α → Prop} {tr : α → List α} (h : OrbitLike P tr)
    (order : List α) (ho : ∀ d ∈ order, P d) :
    (∀ w ∈ sweep tr order [], ∃ d ∈ order, w = tr d) ∧
    (sweep tr order []).Pairwise List.Disjoint ∧
    (∀ d ∈ order, ∃ w ∈ sweep tr order [], d ∈ w) := by
  obtain ⟨h1, h2, _, h4⟩ := sweep_spec_gen h order [] ho (by intro a ha; simp at ha)
  refine ⟨?_, h2, ?_⟩
  · intro w hw; obtain ⟨d, hd, _, rfl⟩ := h1 w hw; exact ⟨d, hd, rfl⟩
  · intro d hd; rcases h4 d hd with hh | hh
    · simp at hh
    · exact hh
