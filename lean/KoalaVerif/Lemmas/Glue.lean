import KoalaVerif.Lemmas.Orbit
import KoalaVerif.Lemmas.CMap
import Mathlib.Data.Fintype.Prod
import Mathlib.Data.Fintype.Basic
/-! Glue: the executable tracer on raw darts (`Nat × Bool`) versus the orbit theorem on the finite
    type of valid darts. -/

open Function

section transfer
variable {α : Type} [DecidableEq α] (P : α → Prop) (f : α → α) (hP : ∀ a, P a → P (f a))

def restr : {a // P a} → {a // P a} := fun a => ⟨f a.1, hP a.1 a.2⟩

theorem traceLoop_restr (start : {a // P a}) :
    ∀ (fuel : Nat) (cur : {a // P a}) (acc : List {a // P a}),
      traceLoop f start.1 fuel cur.1 (acc.map Subtype.val)
        = Option.map (List.map Subtype.val) (traceLoop (restr P f hP) start fuel cur acc) := by
  intro fuel
  induction fuel with
  | zero => intro cur acc; rfl
  | succ n ih =>
    intro cur acc
    unfold traceLoop
    generalize hnx : restr P f hP cur = nx
    have hval : f cur.1 = nx.1 := by rw [← hnx]; rfl
    simp only [hval]
    have e1 : (nx.1 = start.1) ↔ (nx = start) := Subtype.ext_iff.symm
    have e2 : (nx.1 ∈ acc.map Subtype.val) ↔ (nx ∈ acc) := by
      constructor
      · intro h; obtain ⟨b, hb, hbe⟩ := List.mem_map.mp h
        have : b = nx := Subtype.ext hbe
        rw [← this]; exact hb
      · intro h; exact List.mem_map.mpr ⟨_, h, rfl⟩
    by_cases h1 : nx = start
    · rw [if_pos (e1.mpr h1), if_pos h1]; simp [List.map_reverse]
    · rw [if_neg (fun h => h1 (e1.mp h)), if_neg h1]
      by_cases h2 : nx ∈ acc
      · rw [if_pos (e2.mpr h2), if_pos h2]; rfl
      · rw [if_neg (fun h => h2 (e2.mp h)), if_neg h2]
        have := ih nx (nx :: acc)
        simpa using this
end transfer

/-- the finite type of valid darts of a lattice -/
def VDart (L : Lat) : Type := {d : Dart // d.1 < L.E}

instance (L : Lat) : DecidableEq (VDart L) := by unfold VDart; infer_instance

instance (L : Lat) : Finite (VDart L) := by
  have : Function.Injective (fun d : VDart L => ((⟨d.1.1, d.2⟩ : Fin L.E), d.1.2)) := by
    intro a b h
    simp only [Prod.mk.injEq, Fin.mk.injEq] at h
    exact Subtype.ext (Prod.ext h.1 h.2)
  exact Finite.of_injective _ this

/-- headline for C01.3: on a well-formed rotation system the executable tracer, run on raw darts with
    fuel ≥ the orbit length, never sticks and returns the `next`-orbit of the start dart, listed once. -/
theorem trace_on_lattice (L : Lat) (R : Rot) (h : WF L R) (d : Dart) (hd : d.1 < L.E) (fuel : Nat)
    (hfuel : minimalPeriod (restr (fun d : Dart => d.1 < L.E) (nextD L R) (fun _ hd => nextD_valid h hd)) ⟨d, hd⟩ ≤ fuel) :
    trace (nextD L R) d fuel =
      some ((List.iterate (restr (fun d : Dart => d.1 < L.E) (nextD L R) (fun _ hd => nextD_valid h hd)) ⟨d, hd⟩
        (minimalPeriod (restr (fun d : Dart => d.1 < L.E) (nextD L R) (fun _ hd => nextD_valid h hd)) ⟨d, hd⟩)).map Subtype.val) := by
  set g := restr (fun d : Dart => d.1 < L.E) (nextD L R) (fun _ hd => nextD_valid h hd) with hg
  have hinj : Injective g := by
    intro a b hab
    have := congrArg Subtype.val hab
    exact Subtype.ext (nextD_inj h a.2 b.2 this)
  have _inst : Finite {d : Dart // d.1 < L.E} := inferInstanceAs (Finite (VDart L))
  have hspec := trace_spec g hinj ⟨d, hd⟩ fuel hfuel
  have htr := traceLoop_restr (fun d : Dart => d.1 < L.E) (nextD L R) (fun _ hd => nextD_valid h hd)
    ⟨d, hd⟩ fuel ⟨d, hd⟩ [⟨d, hd⟩]
  unfold trace at hspec ⊢
  simp only [List.map_cons, List.map_nil] at htr
  rw [htr, ← hg, hspec]; rfl

